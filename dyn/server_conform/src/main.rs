//! Bounded stand-in for the backends of C08 that no installed deductive verifier can reach (NOT a proof):
//! the SQL of the local server and the git-backed server (which spawns `git`).
//!
//! The version-chain protocol of C08 is written here as an executable contract (a ghost chain, exactly the
//! `Server` trait contract the `sync` unit is verified against): a version is accepted iff its parent is the
//! latest version (any parent when none exists), a rejection names the latest and changes nothing, an accepted
//! version is returned byte for byte as the child of its parent to every handle, an unknown parent yields
//! NoSuchVersion, a snapshot that is returned is one that was stored, intact, with its version.  The real
//! backends are *executed* on every call sequence within a stated bound, from several handles, and every
//! result is checked against that contract.  No faults are injected, so an `Err` is a deviation too.
use serde::{Deserialize, Serialize};
use std::path::{Path, PathBuf};
use taskchampion::server::{AddVersionResult, GetVersionResult, Server, ServerConfig};
use uuid::Uuid;

#[derive(Clone, Copy, Debug, Serialize, Deserialize, PartialEq)]
enum P {
    Nil,
    Last,
    Prev,
    Unknown,
}

#[derive(Clone, Debug, Serialize, Deserialize, PartialEq)]
enum Call {
    Add(usize, P, u8),
    GetChild(usize, P),
    AddSnap(usize, P, u8),
    GetSnap(usize),
    Reopen(usize),
    /// add_version on handle 0 while its k-th git command fails ("before": not run; "after": run, then reported as failed;
    /// "stop": this and every later command fail -- the process can do nothing more), followed by a restart of every handle
    FaultAdd(P, u8, usize, String),
    /// the same for add_snapshot
    FaultSnap(P, u8, usize, String),
}

#[derive(Clone, Debug, Serialize, Deserialize)]
struct Scenario {
    kind: String, // "local" | "git-local" | "git-remote" | "git-remote-late"
    base: Vec<Call>,
    seq: Vec<Call>,
    /// "exhaustive": a call that is not applicable (e.g. Prev with fewer than two versions) drops the scenario (another one covers it);
    /// "walk": such a call is skipped and the walk goes on
    #[serde(default)]
    walk: bool,
}

#[derive(Debug, Serialize)]
struct Mismatch {
    scenario: Scenario,
    at: String,
    got: String,
    expected: String,
    /// what failed, with the identifiers, positions and counts taken out: the same defect gives the same signature
    signature: String,
}

fn normalize(s: &str) -> String {
    // uuids -> ID, numbers -> N
    let mut out = String::new();
    let b: Vec<char> = s.chars().collect();
    let mut i = 0;
    while i < b.len() {
        let is_hex = |c: char| c.is_ascii_hexdigit();
        if i + 36 <= b.len() && b[i..i + 36].iter().enumerate().all(|(j, c)| if [8, 13, 18, 23].contains(&j) { *c == '-' } else { is_hex(*c) }) {
            out.push_str("ID");
            i += 36;
        } else if b[i].is_ascii_digit() {
            while i < b.len() && b[i].is_ascii_digit() {
                i += 1;
            }
            out.push('N');
        } else {
            out.push(b[i]);
            i += 1;
        }
    }
    out
}

fn payload(k: u8) -> Vec<u8> {
    match k {
        0 => vec![],
        1 => vec![0xff, 0xfe, 0x00, b'{', b'"', 0x80, b'\n'],
        2 => (0..70_000u32).map(|i| (i % 251) as u8).collect(),
        _ => b"{\"operations\":[]}".to_vec(),
    }
}

/// The executable protocol contract (ghost state).
#[derive(Default, Clone)]
struct Chain {
    versions: Vec<(Uuid, Uuid, Vec<u8>)>, // (id, parent, payload)
    snapshots: Vec<(Uuid, Vec<u8>)>,
    unknown: Uuid,
}

impl Chain {
    fn latest(&self) -> Option<Uuid> {
        self.versions.last().map(|v| v.0)
    }
    fn resolve(&self, p: P) -> Option<Uuid> {
        match p {
            P::Nil => Some(Uuid::nil()),
            P::Last => self.latest(),
            P::Prev => {
                if self.versions.len() >= 2 {
                    Some(self.versions[self.versions.len() - 2].0)
                } else {
                    None
                }
            }
            P::Unknown => Some(self.unknown),
        }
    }
}

struct World {
    kind: String,
    dir: PathBuf,
    handles: Vec<Option<Box<dyn Server>>>,
}

impl World {
    fn config(&self, h: usize) -> ServerConfig {
        match self.kind.as_str() {
            "local" => ServerConfig::Local { server_dir: self.dir.join("srv") },
            "git-local" => ServerConfig::Git {
                local_path: self.dir.join("repo"),
                branch: "main".into(),
                remote: None,
                local_only: true,
                encryption_secret: b"secret".to_vec(),
                git_path: None,
            },
            _ => ServerConfig::Git {
                local_path: self.dir.join(format!("clone{h}")),
                branch: "main".into(),
                remote: Some(self.dir.join("bare.git").to_str().unwrap().to_string()),
                local_only: false,
                encryption_secret: b"secret".to_vec(),
                git_path: if self.kind == "git-fault" && h == 0 { Some(self.dir.join("gitwrap.sh")) } else { None },
            },
        }
    }
    async fn open(&mut self, h: usize) -> Result<(), String> {
        self.handles[h] = None;
        let s = self.config(h).into_server().await.map_err(|e| format!("opening handle {h}: {e}"))?;
        self.handles[h] = Some(s);
        Ok(())
    }
    async fn handle(&mut self, h: usize) -> Result<&mut Box<dyn Server>, String> {
        if self.handles[h].is_none() {
            self.open(h).await?;
        }
        Ok(self.handles[h].as_mut().unwrap())
    }
}

fn nhandles(kind: &str) -> usize {
    match kind {
        "git-local" => 1,
        _ => 2,
    }
}

async fn fresh_world(dir: &Path, kind: &str) -> Result<World, String> {
    let _ = std::fs::remove_dir_all(dir);
    std::fs::create_dir_all(dir).unwrap();
    if kind == "local" {
        std::fs::create_dir_all(dir.join("srv")).unwrap();
    }
    if kind == "git-fault" {
        use std::os::unix::fs::PermissionsExt;
        let d = dir.join("fault");
        std::fs::create_dir_all(&d).unwrap();
        let script = format!(
            "#!/bin/sh\nD='{}'\nif [ -f \"$D/plan\" ]; then\n  read N MODE < \"$D/plan\"\n  C=$(cat \"$D/count\" 2>/dev/null || echo 0); C=$((C+1)); echo $C > \"$D/count\"\n  if [ \"$C\" -eq \"$N\" ] && [ \"$MODE\" = before ]; then exit 1; fi\n  if [ \"$C\" -eq \"$N\" ] && [ \"$MODE\" = after ]; then git \"$@\"; exit 1; fi\n  if [ \"$C\" -ge \"$N\" ] && [ \"$MODE\" = stop ]; then exit 1; fi\nfi\nexec git \"$@\"\n",
            d.display()
        );
        let p = dir.join("gitwrap.sh");
        std::fs::write(&p, script).unwrap();
        std::fs::set_permissions(&p, std::fs::Permissions::from_mode(0o755)).unwrap();
    }
    if kind.starts_with("git-remote") || kind == "git-fault" {
        let ok = std::process::Command::new("git")
            .args(["init", "--bare", "-q", "bare.git"])
            .current_dir(dir)
            .status()
            .map_err(|e| format!("git: {e}"))?
            .success();
        if !ok {
            return Err("git init --bare failed".into());
        }
    }
    let mut w = World { kind: kind.to_string(), dir: dir.to_path_buf(), handles: (0..nhandles(kind)).map(|_| None).collect() };
    // "late": a handle is created when first used; otherwise all handles exist before any call
    if kind != "git-remote-late" {
        for h in 0..nhandles(kind) {
            w.open(h).await?;
        }
    }
    Ok(w)
}

fn mm(sc: &Scenario, at: String, got: String, expected: String) -> Mismatch {
    // the signature names the failure, not the input: the injected fault's position and kind, the parent chosen, ids and counts
    // are taken out, so that one defect shows as one signature and a different failure as a different one
    let fault = sc.seq.iter().find_map(|c| match c {
        Call::FaultAdd(..) => Some("add_version interrupted by a failing git command"),
        Call::FaultSnap(..) => Some("add_snapshot interrupted by a failing git command"),
        _ => None,
    });
    let phase = match at.rfind("): ") {
        Some(i) if at.contains("Fault") => at[i + 3..].to_string(),
        _ => at.split('(').next().unwrap_or("").to_string(),
    };
    let got_short: String = normalize(&got).chars().take(120).collect();
    let signature = format!("{} | {} | {} | {}", sc.kind, fault.unwrap_or("no fault injected"), normalize(&phase), got_short);
    Mismatch { scenario: sc.clone(), at, got, expected, signature }
}

/// Execute one call and check it against the contract. Ok(false) = the call is not applicable (skipped).
async fn step(w: &mut World, ch: &mut Chain, sc: &Scenario, label: &str, c: &Call) -> Result<bool, Mismatch> {
    let at = format!("{label} {c:?}");
    match c {
        Call::Reopen(h) => {
            if *h >= nhandles(&w.kind) {
                return Ok(false);
            }
            w.open(*h).await.map_err(|e| mm(sc, at, e, "handle opens".into()))?;
            Ok(true)
        }
        Call::Add(h, p, k) => {
            if *h >= nhandles(&w.kind) {
                return Ok(false);
            }
            let Some(parent) = ch.resolve(*p) else { return Ok(false) };
            let data = payload(*k);
            let srv = w.handle(*h).await.map_err(|e| mm(sc, at.clone(), e, "handle opens".into()))?;
            let mut r = srv.add_version(parent, data.clone()).await;
            let accept = ch.latest().is_none() || ch.latest() == Some(parent);
            if accept {
                if let Ok((AddVersionResult::ExpectedParentVersion(v), _)) = &r {
                    // A handle with a stale view may first have to catch up: the property does not forbid a rejection that names
                    // the current latest even though that is the parent given -- the client's next step (sync() pulls, finds
                    // nothing, and tries again) is the same request once more, and THAT one must be accepted: sync() gives up
                    // with OutOfSync when the same parent is named twice.
                    if ch.latest().is_some() && Some(*v) != ch.latest() {
                        return Err(mm(sc, at, format!("ExpectedParentVersion({v})"), format!("accepted, or at least ExpectedParentVersion({:?})", ch.latest().unwrap())));
                    }
                    r = srv.add_version(parent, data.clone()).await;
                    if let Ok((AddVersionResult::ExpectedParentVersion(v2), _)) = &r {
                        return Err(mm(sc, at, format!("rejected twice in a row (ExpectedParentVersion({v2})) although the parent given is the latest version / no version exists"), "accepted".into()));
                    }
                }
            }
            match r {
                Ok((AddVersionResult::Ok(id), _)) => {
                    if !accept {
                        return Err(mm(sc, at, format!("accepted as {id}"), format!("ExpectedParentVersion({:?})", ch.latest().unwrap())));
                    }
                    if id.is_nil() || ch.versions.iter().any(|v| v.0 == id) || id == ch.unknown {
                        return Err(mm(sc, at, format!("accepted with id {id}"), "a fresh version id".into()));
                    }
                    ch.versions.push((id, parent, data));
                    Ok(true)
                }
                Ok((AddVersionResult::ExpectedParentVersion(v), _)) => {
                    if Some(v) != ch.latest() {
                        return Err(mm(sc, at, format!("ExpectedParentVersion({v})"), format!("ExpectedParentVersion({:?})", ch.latest().unwrap())));
                    }
                    Ok(true)
                }
                Err(e) => Err(mm(sc, at, format!("Err({e})"), if accept { "accepted".into() } else { "ExpectedParentVersion(latest)".into() })),
            }
        }
        Call::GetChild(h, p) => {
            if *h >= nhandles(&w.kind) {
                return Ok(false);
            }
            let Some(parent) = ch.resolve(*p) else { return Ok(false) };
            let srv = w.handle(*h).await.map_err(|e| mm(sc, at.clone(), e, "handle opens".into()))?;
            let r = srv.get_child_version(parent).await;
            let exp = ch.versions.iter().find(|v| v.1 == parent);
            match (r, exp) {
                (Ok(GetVersionResult::NoSuchVersion), None) => Ok(true),
                (Ok(GetVersionResult::Version { version_id, parent_version_id, history_segment }), Some(e)) => {
                    if version_id != e.0 || parent_version_id != e.1 || history_segment != e.2 {
                        return Err(mm(
                            sc,
                            at,
                            format!("Version {version_id} parent {parent_version_id} {} bytes", history_segment.len()),
                            format!("Version {} parent {} {} bytes, byte for byte", e.0, e.1, e.2.len()),
                        ));
                    }
                    Ok(true)
                }
                (Ok(GetVersionResult::NoSuchVersion), Some(e)) => Err(mm(sc, at, "NoSuchVersion".into(), format!("Version {}", e.0))),
                (Ok(GetVersionResult::Version { version_id, .. }), None) => Err(mm(sc, at, format!("Version {version_id}"), "NoSuchVersion".into())),
                (Err(e), _) => Err(mm(sc, at, format!("Err({e})"), "a result".into())),
            }
        }
        Call::AddSnap(h, p, k) => {
            if *h >= nhandles(&w.kind) || matches!(p, P::Nil | P::Unknown) {
                return Ok(false);
            }
            let Some(v) = ch.resolve(*p) else { return Ok(false) };
            let data = payload(*k);
            let srv = w.handle(*h).await.map_err(|e| mm(sc, at.clone(), e, "handle opens".into()))?;
            match srv.add_snapshot(v, data.clone()).await {
                Ok(()) => {
                    ch.snapshots.push((v, data));
                    Ok(true)
                }
                Err(e) => Err(mm(sc, at, format!("Err({e})"), "Ok".into())),
            }
        }
        Call::FaultAdd(p, k, n, mode) | Call::FaultSnap(p, k, n, mode) => {
            if w.kind != "git-fault" {
                return Ok(false);
            }
            let is_add = matches!(c, Call::FaultAdd(..));
            if !is_add && matches!(p, P::Nil | P::Unknown) {
                return Ok(false);
            }
            let Some(parent) = ch.resolve(*p) else { return Ok(false) };
            let data = payload(*k);
            let fdir = w.dir.join("fault");
            let _ = std::fs::remove_file(fdir.join("count"));
            std::fs::write(fdir.join("plan"), format!("{n} {mode}\n")).unwrap();
            let srv = w.handle(0).await.map_err(|e| mm(sc, at.clone(), e, "handle opens".into()))?;
            let add_res = if is_add { Some(srv.add_version(parent, data.clone()).await) } else { None };
            let snap_res = if is_add { None } else { Some(srv.add_snapshot(parent, data.clone()).await) };
            let _ = std::fs::remove_file(fdir.join("plan"));
            let count: usize = std::fs::read_to_string(fdir.join("count")).ok().and_then(|s| s.trim().parse().ok()).unwrap_or(0);
            if count < *n {
                // the call issues fewer git commands than that: the fault never happened (another scenario covers the plain call)
                return Ok(false);
            }
            // the process is gone; every replica starts again
            for h in 0..nhandles(&w.kind) {
                w.open(h).await.map_err(|e| mm(sc, format!("{at}: restart of handle {h} after the fault"), e, "the backend opens again".into()))?;
            }
            if let Some(r) = snap_res {
                if r.is_ok() || true {
                    // whether or not the call reported success, the snapshot may have been stored
                    ch.snapshots.push((parent, data.clone()));
                }
                for h in 0..nhandles(&w.kind) {
                    let srv = w.handle(h).await.map_err(|e| mm(sc, at.clone(), e, "handle opens".into()))?;
                    match srv.get_snapshot().await {
                        Ok(None) => {}
                        Ok(Some((v, d))) => {
                            if !ch.snapshots.iter().any(|s| s.0 == v && s.1 == d) {
                                return Err(mm(sc, format!("{at}: get_snapshot on handle {h} after restart"), format!("snapshot for {v}, {} bytes", d.len()), "None, or a snapshot that was stored, intact".into()));
                            }
                        }
                        Err(e) => return Err(mm(sc, format!("{at}: get_snapshot on handle {h} after restart"), format!("Err({e})"), "a result".into())),
                    }
                }
                return Ok(true);
            }
            let r = add_res.unwrap();
            let accept = ch.latest().is_none() || ch.latest() == Some(parent);
            // what every handle now sees as the child of `parent`
            let mut seen: Vec<Option<(Uuid, Vec<u8>)>> = Vec::new();
            for h in 0..nhandles(&w.kind) {
                let srv = w.handle(h).await.map_err(|e| mm(sc, at.clone(), e, "handle opens".into()))?;
                match srv.get_child_version(parent).await {
                    Ok(GetVersionResult::NoSuchVersion) => seen.push(None),
                    Ok(GetVersionResult::Version { version_id, history_segment, .. }) => seen.push(Some((version_id, history_segment))),
                    Err(e) => return Err(mm(sc, format!("{at}: get_child_version on handle {h} after restart"), format!("Err({e})"), "the backend is usable after the failure".into())),
                }
            }
            let existing = ch.versions.iter().find(|v| v.1 == parent).map(|v| (v.0, v.2.clone()));
            if !accept || existing.is_some() {
                // the request had to be refused: nothing may have changed
                for (h, sv) in seen.iter().enumerate() {
                    if *sv != existing {
                        return Err(mm(sc, format!("{at}: child of the parent as handle {h} sees it after restart"), format!("{:?}", sv.as_ref().map(|x| x.0)), format!("{:?} (a refused request changes nothing)", existing.as_ref().map(|x| x.0))));
                    }
                }
                if let Ok((AddVersionResult::Ok(id), _)) = &r {
                    return Err(mm(sc, at, format!("accepted as {id}"), "refused".into()));
                }
                return Ok(true);
            }
            // either fully accepted or not visible at all -- the same for everyone
            for (h, sv) in seen.iter().enumerate() {
                if *sv != seen[0] {
                    return Err(mm(sc, format!("{at}: after restart"), format!("handle 0 sees {:?}, handle {h} sees {:?}", seen[0].as_ref().map(|x| x.0), sv.as_ref().map(|x| x.0)), "the version is either accepted for everyone or visible to nobody".into()));
                }
            }
            match (&seen[0], &r) {
                (None, Ok((AddVersionResult::Ok(id), _))) => {
                    return Err(mm(sc, format!("{at}: after restart"), "not visible".into(), format!("version {id}, which the call reported as accepted")));
                }
                (Some((id, d)), _) => {
                    if *d != data {
                        return Err(mm(sc, format!("{at}: after restart"), format!("version {id} with {} bytes", d.len()), "the bytes submitted".into()));
                    }
                    if let Ok((AddVersionResult::Ok(rid), _)) = &r {
                        if rid != id {
                            return Err(mm(sc, format!("{at}: after restart"), format!("version {id}"), format!("version {rid} as reported")));
                        }
                    }
                    ch.versions.push((*id, parent, data));
                }
                (None, _) => {}
            }
            Ok(true)
        }
        Call::GetSnap(h) => {
            if *h >= nhandles(&w.kind) {
                return Ok(false);
            }
            let srv = w.handle(*h).await.map_err(|e| mm(sc, at.clone(), e, "handle opens".into()))?;
            match srv.get_snapshot().await {
                Ok(None) => Ok(true),
                Ok(Some((v, d))) => {
                    if ch.snapshots.iter().any(|s| s.0 == v && s.1 == d) {
                        Ok(true)
                    } else {
                        Err(mm(sc, at, format!("snapshot for {v}, {} bytes", d.len()), "None, or a snapshot that was stored, intact, with its version".into()))
                    }
                }
                Err(e) => Err(mm(sc, at, format!("Err({e})"), "a result".into())),
            }
        }
    }
}

/// After the sequence: every handle, and a handle opened afresh, can walk the whole chain.
async fn walk_all(w: &mut World, ch: &mut Chain, sc: &Scenario) -> Result<(), Mismatch> {
    // the second round reopens every handle first; for the git kinds only in walks (opening a handle derives the key, ~0.2 s)
    let rounds = if w.kind == "local" || sc.walk { 2 } else { 1 };
    for round in 0..rounds {
        for h in 0..nhandles(&w.kind) {
            if round == 1 {
                w.open(h).await.map_err(|e| mm(sc, format!("final reopen of handle {h}"), e, "handle opens".into()))?;
            }
            let parents: Vec<Uuid> = ch.versions.iter().map(|v| v.1).chain(ch.latest()).collect();
            for parent in parents {
                let srv = w.handle(h).await.map_err(|e| mm(sc, "final walk".into(), e, "handle opens".into()))?;
                let r = srv.get_child_version(parent).await;
                let exp = ch.versions.iter().find(|v| v.1 == parent);
                let ok = match (&r, exp) {
                    (Ok(GetVersionResult::NoSuchVersion), None) => true,
                    (Ok(GetVersionResult::Version { version_id, parent_version_id, history_segment }), Some(e)) => {
                        *version_id == e.0 && *parent_version_id == e.1 && *history_segment == e.2
                    }
                    _ => false,
                };
                if !ok {
                    return Err(mm(
                        sc,
                        format!("final walk (round {round}) handle {h} get_child_version({parent})"),
                        format!("{:?}", r.map(|x| match x {
                            GetVersionResult::NoSuchVersion => "NoSuchVersion".to_string(),
                            GetVersionResult::Version { version_id, .. } => format!("Version {version_id}"),
                        })),
                        format!("{:?}", exp.map(|e| e.0)),
                    ));
                }
            }
        }
    }
    Ok(())
}

fn copy_tree(from: &Path, to: &Path) {
    std::fs::create_dir_all(to).unwrap();
    for e in std::fs::read_dir(from).unwrap() {
        let e = e.unwrap();
        let ft = e.file_type().unwrap();
        if ft.is_dir() {
            copy_tree(&e.path(), &to.join(e.file_name()));
        } else {
            std::fs::copy(e.path(), to.join(e.file_name())).unwrap();
        }
    }
}

/// Per worker: the world after each base, saved as a directory tree (restored to the SAME path, since git clones record
/// the absolute path of their remote) together with the contract's ghost chain at that point.
struct Worker {
    dir: PathBuf,
    templates: std::collections::HashMap<String, Option<Chain>>,
}

impl Worker {
    fn new(dir: PathBuf) -> Worker {
        Worker { dir, templates: Default::default() }
    }

    async fn run_scenario(&mut self, sc: &Scenario) -> Result<bool, Mismatch> {
        let world_dir = self.dir.join("world");
        if sc.kind.starts_with("git") && !sc.base.is_empty() {
            // A git handle keeps state in memory (the cached meta, the key): the base is executed through the SAME handles the
            // sequence then uses, not restored from a template with fresh handles -- a handle left stale by the base is the point.
            let mut w = match fresh_world(&world_dir, &sc.kind).await {
                Ok(w) => w,
                Err(e) => return Err(mm(sc, "setting up the backend".into(), e, "backend opens".into())),
            };
            let mut ch = Chain { unknown: Uuid::from_u128(0xdead_0000_0000_4000_8000_0000_0000_0001), ..Default::default() };
            for c in &sc.base {
                if !step(&mut w, &mut ch, sc, "base", c).await? {
                    return Ok(true);
                }
            }
            for (i, c) in sc.seq.iter().enumerate() {
                if !step(&mut w, &mut ch, sc, &format!("call #{i}"), c).await? && !sc.walk {
                    return Ok(true);
                }
            }
            walk_all(&mut w, &mut ch, sc).await?;
            return Ok(false);
        }
        let key = format!("{}-{}", sc.kind, serde_json::to_string(&sc.base).unwrap());
        let tdir = self.dir.join(format!("tmpl-{}", self.templates.len()));
        if !self.templates.contains_key(&key) {
            let mut w = match fresh_world(&world_dir, &sc.kind).await {
                Ok(w) => w,
                Err(e) => return Err(mm(sc, "setting up the backend".into(), e, "backend opens".into())),
            };
            let mut ch = Chain { unknown: Uuid::from_u128(0xdead_0000_0000_4000_8000_0000_0000_0001), ..Default::default() };
            let mut applicable = true;
            for c in &sc.base {
                if !step(&mut w, &mut ch, sc, "base", c).await? {
                    applicable = false;
                }
            }
            drop(w);
            let _ = std::fs::remove_dir_all(&tdir);
            copy_tree(&world_dir, &tdir);
            std::fs::write(tdir.join(".key"), &key).unwrap();
            self.templates.insert(key.clone(), if applicable { Some(ch) } else { None });
        }
        let Some(ch0) = self.templates[&key].clone() else { return Ok(true) };
        // find the template directory of this key
        let mut src = None;
        for e in std::fs::read_dir(&self.dir).unwrap() {
            let p = e.unwrap().path();
            if p.join(".key").exists() && std::fs::read_to_string(p.join(".key")).unwrap() == key {
                src = Some(p);
            }
        }
        let src = src.expect("template directory");
        let _ = std::fs::remove_dir_all(&world_dir);
        copy_tree(&src, &world_dir);
        let _ = std::fs::remove_file(world_dir.join(".key"));
        let mut w = World { kind: sc.kind.clone(), dir: world_dir.clone(), handles: (0..nhandles(&sc.kind)).map(|_| None).collect() };
        if sc.kind != "git-remote-late" {
            for h in 0..nhandles(&sc.kind) {
                w.open(h).await.map_err(|e| mm(sc, "opening the handles".into(), e, "handle opens".into()))?;
            }
        }
        let mut ch = ch0;
        for (i, c) in sc.seq.iter().enumerate() {
            if !step(&mut w, &mut ch, sc, &format!("call #{i}"), c).await? && !sc.walk {
                return Ok(true);
            }
        }
        walk_all(&mut w, &mut ch, sc).await?;
        Ok(false)
    }
}


// ------------------------------------------------------------------------------------------------------------------ C13 (git)

fn b64enc(d: &[u8]) -> String {
    const T: &[u8; 64] = b"ABCDEFGHIJKLMNOPQRSTUVWXYZabcdefghijklmnopqrstuvwxyz0123456789+/";
    let mut o = String::new();
    for c in d.chunks(3) {
        let n = (c[0] as u32) << 16 | (*c.get(1).unwrap_or(&0) as u32) << 8 | *c.get(2).unwrap_or(&0) as u32;
        o.push(T[(n >> 18) as usize & 63] as char);
        o.push(T[(n >> 12) as usize & 63] as char);
        o.push(if c.len() > 1 { T[(n >> 6) as usize & 63] as char } else { '=' });
        o.push(if c.len() > 2 { T[n as usize & 63] as char } else { '=' });
    }
    o
}
fn b64dec(s: &str) -> Option<Vec<u8>> {
    let v = |c: u8| -> Option<u32> {
        Some(match c {
            b'A'..=b'Z' => c - b'A',
            b'a'..=b'z' => c - b'a' + 26,
            b'0'..=b'9' => c - b'0' + 52,
            b'+' => 62,
            b'/' => 63,
            _ => return None,
        } as u32)
    };
    let b: Vec<u8> = s.bytes().filter(|c| *c != b'=').collect();
    let mut o = Vec::new();
    for c in b.chunks(4) {
        let mut n = 0u32;
        for (i, x) in c.iter().enumerate() {
            n |= v(*x)? << (18 - 6 * i);
        }
        o.push((n >> 16) as u8);
        if c.len() > 2 {
            o.push((n >> 8) as u8);
        }
        if c.len() > 3 {
            o.push(n as u8);
        }
    }
    Some(o)
}

fn contains(hay: &[u8], needle: &[u8]) -> bool {
    needle.len() >= 6 && hay.windows(needle.len()).any(|w| w == needle)
}

/// The sealed form of C13 as it lies in the git working tree, and what happens when it is tampered with.
async fn seal_checks(dir: &Path, payload_kind: u8, every_byte: bool) -> Result<usize, Mismatch> {
    let sc = Scenario { kind: "git-seal".into(), base: vec![], seq: vec![Call::Add(0, P::Nil, payload_kind)], walk: false };
    let bad = |at: &str, got: String, exp: &str| Err(mm(&sc, at.to_string(), got, exp.to_string()));
    let _ = std::fs::remove_dir_all(dir);
    std::fs::create_dir_all(dir).unwrap();
    let repo = dir.join("repo");
    let cfg = |secret: &[u8]| ServerConfig::Git { local_path: repo.clone(), branch: "main".into(), remote: None, local_only: true, encryption_secret: secret.to_vec(), git_path: None };
    let p1: Vec<u8> = match payload_kind {
        0 => vec![],
        1 => b"TASKCONTENT {\"description\":\"my secret plan\"} TASKCONTENT".to_vec(),
        _ => payload(2),
    };
    let p2: Vec<u8> = b"SECOND-VERSION-CONTENT-0123456789".to_vec();
    let snap: Vec<u8> = b"SNAPSHOT-CONTENT {\"uuid\":{\"description\":\"hidden\"}}".to_vec();
    let mut srv = cfg(b"secret").into_server().await.map_err(|e| mm(&sc, "opening the repository".into(), format!("{e}"), "opens".into()))?;
    // the directory may be used for other things (docs of ServerConfig::Git): a file of the user's with task content in clear lies next
    // to the backend's files; nothing of it may end up in what the backend stores (commits, and would push)
    const FOREIGN: &[u8] = b"FOREIGN-FILE {\"description\":\"task content in a file that is not the backend's\"} 0123456789";
    std::fs::write(repo.join("notes.txt"), FOREIGN).unwrap();
    let v1 = match srv.add_version(Uuid::nil(), p1.clone()).await {
        Ok((AddVersionResult::Ok(v), _)) => v,
        other => return bad("add_version #1", format!("{:?}", other.map(|x| x.0)), "accepted"),
    };
    let v2 = match srv.add_version(v1, p2.clone()).await {
        Ok((AddVersionResult::Ok(v), _)) => v,
        other => return bad("add_version #2", format!("{:?}", other.map(|x| x.0)), "accepted"),
    };
    if let Err(e) = srv.add_snapshot(v2, snap.clone()).await {
        return bad("add_snapshot", format!("Err({e})"), "Ok");
    }
    let f1 = repo.join(format!("v-{}-{}", Uuid::nil().simple(), v1.simple()));
    let f2 = repo.join(format!("v-{}-{}", v1.simple(), v2.simple()));
    let fs = repo.join("snapshot");
    let b1 = std::fs::read(&f1).map_err(|e| mm(&sc, "reading the version file".into(), format!("{e}"), format!("a file {}", f1.display())))?;
    let b2 = std::fs::read(&f2).map_err(|e| mm(&sc, "reading the second version file".into(), format!("{e}"), "a file".into()))?;
    let mut checks = 0usize;
    // the documented sealed form
    for (name, b, p) in [("version #1", &b1, &p1), ("version #2", &b2, &p2)] {
        checks += 1;
        if b.first() != Some(&1) {
            return bad(&format!("stored form of {name}"), format!("first byte {:?}", b.first()), "format byte 1");
        }
        if b.len() != 1 + 12 + p.len() + 16 {
            return bad(&format!("stored form of {name}"), format!("{} bytes for a payload of {}", b.len(), p.len()), "1 + 12 (nonce) + payload + 16 (tag) bytes");
        }
        if contains(b, p) || contains(b, &p[..p.len().min(12)]) {
            return bad(&format!("stored form of {name}"), "the payload appears in the stored bytes".into(), "no task content appears in what is stored");
        }
    }
    if b1[1..13] == b2[1..13] {
        return bad("nonces of two versions", "equal".into(), "a fresh random nonce each time");
    }
    // everything in the working tree and the object database: no plaintext anywhere
    fn walk(d: &Path, f: &mut dyn FnMut(&Path)) {
        if let Ok(rd) = std::fs::read_dir(d) {
            for e in rd.flatten() {
                let p = e.path();
                if p.is_dir() {
                    walk(&p, f);
                } else {
                    f(&p);
                }
            }
        }
    }
    let mut leak: Option<String> = None;
    walk(&repo, &mut |p| {
        if let Ok(b) = std::fs::read(p) {
            for needle in [&p1[..p1.len().min(20)], &p2[..20], &snap[..20]] {
                if contains(&b, needle) {
                    leak = Some(p.display().to_string());
                }
            }
        }
    });
    checks += 1;
    if let Some(l) = leak {
        return bad("files of the repository", format!("task content in clear in {l}"), "no task content appears in what is stored");
    }
    // ... and nothing committed contains the task content of the foreign file (git objects are compressed, so ask git)
    checks += 1;
    let revs = std::process::Command::new("git").arg("-C").arg(&repo).args(["rev-list", "--all"]).output().map(|o| String::from_utf8_lossy(&o.stdout).to_string()).unwrap_or_default();
    for rev in revs.split_whitespace() {
        let found = std::process::Command::new("git").arg("-C").arg(&repo).args(["grep", "-a", "-q", "-F", "FOREIGN-FILE {", rev]).output().map(|o| o.status.success()).unwrap_or(false);
        if found {
            return bad("commits of the repository", format!("the content of a file that is not the backend's (notes.txt, task content in clear) is part of commit {rev}"), "no task content appears in what is stored");
        }
    }
    let sjson: serde_json::Value = serde_json::from_slice(&std::fs::read(&fs).unwrap_or_default()).unwrap_or(serde_json::Value::Null);
    let sp = sjson["payload"].as_str().and_then(b64dec);
    let Some(sp) = sp else { return bad("stored form of the snapshot", format!("{sjson}"), "a base64 payload") };
    checks += 1;
    if sp.first() != Some(&1) || sp.len() != 1 + 12 + snap.len() + 16 || contains(&sp, &snap[..12]) {
        return bad("stored form of the snapshot", format!("first byte {:?}, {} bytes", sp.first(), sp.len()), "the sealed form of the snapshot");
    }
    // opening with the same secret yields the original bytes
    match srv.get_child_version(Uuid::nil()).await {
        Ok(GetVersionResult::Version { version_id, history_segment, .. }) if version_id == v1 && history_segment == p1 => {}
        other => return bad("reading version #1 back", format!("{:?}", other.map(|_| "something else")), "the original bytes"),
    }
    // every single-bit modification of one byte and every truncation is rejected with an error
    let positions: Vec<usize> = if every_byte { (0..b1.len()).collect() } else { (0..b1.len()).filter(|i| *i < 40 || *i + 20 >= b1.len() || i % 97 == 0).collect() };
    for i in positions {
        let mut t = b1.clone();
        t[i] ^= 1 << (i % 8);
        std::fs::write(&f1, &t).unwrap();
        checks += 1;
        match srv.get_child_version(Uuid::nil()).await {
            Err(_) => {}
            Ok(r) => {
                std::fs::write(&f1, &b1).unwrap();
                return bad(&format!("version file with byte {i} modified"), format!("Ok({})", match r { GetVersionResult::NoSuchVersion => "NoSuchVersion".to_string(), GetVersionResult::Version { history_segment, .. } => format!("{} bytes returned", history_segment.len()) }), "an error");
            }
        }
    }
    let cuts: Vec<usize> = if every_byte { (0..b1.len()).collect() } else { (0..b1.len()).filter(|i| *i < 32 || *i + 18 >= b1.len()).collect() };
    for n in cuts {
        std::fs::write(&f1, &b1[..n]).unwrap();
        checks += 1;
        if let Ok(r) = srv.get_child_version(Uuid::nil()).await {
            std::fs::write(&f1, &b1).unwrap();
            return bad(&format!("version file truncated to {n} bytes"), format!("Ok({})", matches!(r, GetVersionResult::Version { .. })), "an error");
        }
    }
    std::fs::write(&f1, &b1).unwrap();
    // re-labelled: the sealed bytes of version #1 under the name of version #2
    std::fs::write(&f2, &b1).unwrap();
    checks += 1;
    if let Ok(GetVersionResult::Version { .. }) = srv.get_child_version(v1).await {
        std::fs::write(&f2, &b2).unwrap();
        return bad("sealed bytes of version #1 stored under the name of version #2", "returned as a version".into(), "an error (the version id is authenticated)");
    }
    std::fs::write(&f2, &b2).unwrap();
    // snapshot: modified payload, re-labelled version id, a version's bytes in place of the snapshot
    let orig_snapshot = std::fs::read(&fs).unwrap();
    for (what, vid, pl) in [
        ("snapshot with one payload byte modified", v2, { let mut t = sp.clone(); let k = t.len() / 2; t[k] ^= 4; t }),
        ("snapshot re-labelled with another version id", v1, sp.clone()),
        // (not checked: version #2's sealed bytes stored as the snapshot OF VERSION #2 do open -- both are authenticated with the same
        // application id and version id, the documented form has no separate label for the kind of data; the property does not ask for one)
        ("the sealed bytes of version #1 stored as the snapshot of version #2", v2, b1.clone()),
        ("snapshot truncated", v2, sp[..sp.len() - 1].to_vec()),
    ] {
        let j = serde_json::json!({"version_id": vid.simple().to_string(), "payload": b64enc(&pl)});
        std::fs::write(&fs, serde_json::to_vec(&j).unwrap()).unwrap();
        checks += 1;
        if let Ok(Some((v, d))) = srv.get_snapshot().await {
            std::fs::write(&fs, &orig_snapshot).unwrap();
            return bad(what, format!("returned a snapshot for {v}, {} bytes", d.len()), "an error");
        }
    }
    std::fs::write(&fs, &orig_snapshot).unwrap();
    match srv.get_snapshot().await {
        Ok(Some((v, d))) if v == v2 && d == snap => {}
        other => return bad("reading the snapshot back", format!("{:?}", other.map(|x| x.map(|y| y.0))), "the original bytes with its version id"),
    }
    // a different secret opens nothing
    drop(srv);
    let mut other = cfg(b"another secret").into_server().await.map_err(|e| mm(&sc, "opening with another secret".into(), format!("{e}"), "opens".into()))?;
    checks += 2;
    if let Ok(GetVersionResult::Version { .. }) = other.get_child_version(Uuid::nil()).await {
        return bad("reading version #1 with another secret", "returned as a version".into(), "an error");
    }
    if let Ok(Some(_)) = other.get_snapshot().await {
        return bad("reading the snapshot with another secret", "returned".into(), "an error");
    }
    Ok(checks)
}

fn alphabet(kind: &str, payloads: &[u8], snaps: bool, reopen: bool, parents: &[P]) -> Vec<Call> {
    let mut v = Vec::new();
    for h in 0..nhandles(kind) {
        for p in parents.iter().copied() {
            for k in payloads {
                v.push(Call::Add(h, p, *k));
            }
            if p != P::Unknown || parents.len() > 3 {
                v.push(Call::GetChild(h, p));
            }
        }
        if snaps {
            v.push(Call::AddSnap(h, P::Last, 1));
            v.push(Call::AddSnap(h, P::Prev, 0));
            v.push(Call::GetSnap(h));
        }
        if reopen {
            v.push(Call::Reopen(h));
        }
    }
    v
}

struct Rng(u64);
impl Rng {
    fn next(&mut self) -> u64 {
        self.0 ^= self.0 << 13;
        self.0 ^= self.0 >> 7;
        self.0 ^= self.0 << 17;
        self.0
    }
}

fn bases(kind: &str) -> Vec<Vec<Call>> {
    let other = if nhandles(kind) > 1 { 1 } else { 0 };
    vec![
        vec![],
        vec![Call::Add(0, P::Unknown, 3)],
        if kind == "local" {
            vec![Call::Add(0, P::Nil, 3), Call::Add(other, P::Last, 1)]
        } else {
            vec![Call::Add(0, P::Nil, 3), Call::Add(other, P::Last, 1), Call::AddSnap(0, P::Last, 2)]
        },
    ]
}

fn seqs(alpha: &[Call], depth: usize, f: &mut dyn FnMut(&[Call])) {
    fn rec(alpha: &[Call], depth: usize, cur: &mut Vec<Call>, f: &mut dyn FnMut(&[Call])) {
        f(cur);
        if cur.len() == depth {
            return;
        }
        for c in alpha {
            cur.push(c.clone());
            rec(alpha, depth, cur, f);
            cur.pop();
        }
    }
    rec(alpha, depth, &mut Vec::new(), f);
}

fn main() {
    let args: Vec<String> = std::env::args().collect();
    let get = |k: &str| args.iter().position(|a| a == k).and_then(|i| args.get(i + 1)).cloned();
    let work = PathBuf::from(get("--work").expect("--work DIR"));
    let out = PathBuf::from(get("--out").expect("--out DIR"));
    std::fs::create_dir_all(&out).unwrap();
    // the git backend must not read the user's configuration
    std::env::set_var("GIT_CONFIG_NOSYSTEM", "1");
    std::env::set_var("GIT_CONFIG_GLOBAL", "/dev/null");
    std::env::set_var("GIT_TERMINAL_PROMPT", "0");
    let rt = || tokio::runtime::Builder::new_current_thread().enable_all().build().unwrap();

    if let Some(path) = get("--replay") {
        let v: serde_json::Value = serde_json::from_str(&std::fs::read_to_string(&path).unwrap()).unwrap();
        let sc: Scenario = serde_json::from_value(v["scenario"].clone()).unwrap();
        let mut w = Worker::new(work.join("replay"));
        let res = rt().block_on(w.run_scenario(&sc));
        let _ = std::fs::remove_dir_all(work.join("replay"));
        match res {
            Ok(skipped) => {
                println!("replay: no deviation from the protocol contract (skipped={skipped})");
                std::process::exit(0)
            }
            Err(m) => {
                println!("replay: DEVIATION {}", serde_json::to_string_pretty(&m).unwrap());
                std::process::exit(1)
            }
        }
    }

    let tier = get("--tier").unwrap_or("quick".into());
    let jobs: usize = get("--jobs").and_then(|s| s.parse().ok()).unwrap_or(8);
    let only = get("--kinds");
    let known: Vec<String> = get("--known").map(|k| k.split(";;").map(|x| x.to_string()).filter(|x| !x.is_empty()).collect()).unwrap_or_default();
    let known = std::sync::Arc::new(known);
    let seed: u64 = get("--seed").and_then(|s| s.parse().ok()).unwrap_or(0);
    let thorough = tier == "thorough";
    let mut scenarios: Vec<Scenario> = Vec::new();
    let mut bounds = serde_json::Map::new();
    const ALL: [P; 4] = [P::Nil, P::Last, P::Prev, P::Unknown];
    const FEW: [P; 3] = [P::Nil, P::Last, P::Unknown];
    const TWO: [P; 2] = [P::Nil, P::Last];
    // (kind, exhaustive depth, payloads, snapshot calls, reopen calls, parents, bases used, walks, walk length)
    // Opening a git handle derives the key (PBKDF2, ~0.2 s) and every git call spawns processes: the git kinds are explored
    // far less deeply than the local server. With two symmetric handles only sequences whose first call uses handle 0 are run.
    let plans: Vec<(&str, usize, Vec<u8>, bool, bool, &[P], Vec<usize>, usize, usize)> = if thorough {
        vec![
            ("local", 4, vec![1], false, true, &ALL, vec![0, 1, 2], 2000, 30),
            ("local", 3, vec![0, 1, 2], false, true, &ALL, vec![0, 1, 2], 0, 0),
            ("git-local", 3, vec![1], true, false, &FEW, vec![0], 20, 24),
            ("git-remote", 3, vec![1], false, false, &TWO, vec![0], 20, 24),
            ("git-remote", 2, vec![1], true, true, &ALL, vec![0], 0, 0),
            ("git-remote", 2, vec![1], true, false, &TWO, vec![2], 0, 0),
            ("git-remote", 1, vec![1], true, true, &ALL, vec![2], 0, 0),
            ("git-remote-late", 2, vec![1], false, false, &FEW, vec![0], 10, 24),
        ]
    } else {
        vec![
            ("local", 3, vec![1], false, true, &ALL, vec![0, 1, 2], 600, 30),
            ("local", 2, vec![0, 1, 2], false, true, &ALL, vec![0, 1, 2], 0, 0),
            ("git-local", 2, vec![1], true, true, &FEW, vec![0], 4, 16),
            ("git-remote", 2, vec![1], false, false, &TWO, vec![0], 3, 14),
            ("git-remote", 1, vec![1], true, false, &ALL, vec![2], 0, 0),
            ("git-remote-late", 2, vec![1], false, false, &TWO, vec![0], 2, 14),
        ]
    };
    for (kind, depth, payloads, snaps, reopen, parents, base_ix, walks, wlen) in plans {
        if let Some(o) = &only {
            if !o.split(',').any(|k| k == kind) {
                continue;
            }
        }
        // the local server never asks for a snapshot (urgency None) and its add_snapshot is `unreachable!()`: a replica sends a
        // snapshot only when asked (proved for sync(), C12), so add_snapshot on the local server is outside the contract
        let alpha = alphabet(kind, &payloads, snaps && kind != "local", reopen, parents);
        let all_bases = bases(kind);
        let mut n = 0usize;
        let first_handle = |c: &Call| match c {
            Call::Add(h, ..) | Call::GetChild(h, _) | Call::AddSnap(h, ..) | Call::GetSnap(h) | Call::Reopen(h) => *h,
            Call::FaultAdd(..) | Call::FaultSnap(..) => 0,
        };
        for bi in &base_ix {
            seqs(&alpha, depth, &mut |s| {
                // symmetry: with an empty base the two handles of the git-remote kinds are interchangeable
                if kind.starts_with("git-remote") && all_bases[*bi].is_empty() && !s.is_empty() && first_handle(&s[0]) != 0 {
                    return;
                }
                n += 1;
                scenarios.push(Scenario { kind: kind.to_string(), base: all_bases[*bi].clone(), seq: s.to_vec(), walk: false })
            });
        }
        let wide = alphabet(kind, &[0, 1, 2, 3], kind != "local", true, &ALL);
        let mut rng = Rng(0x9e3779b97f4a7c15 ^ seed.wrapping_mul(0x2545F4914F6CDD1D) ^ (kind.len() as u64) << 32 ^ depth as u64);
        for _ in 0..walks {
            let seq: Vec<Call> = (0..wlen).map(|_| wide[(rng.next() % wide.len() as u64) as usize].clone()).collect();
            scenarios.push(Scenario { kind: kind.to_string(), base: vec![], seq, walk: true });
        }
        let e = bounds.entry(kind.to_string()).or_insert_with(|| serde_json::json!([]));
        e.as_array_mut().unwrap().push(serde_json::json!({
            "exhaustive_depth": depth, "alphabet": alpha.len(), "bases": base_ix.len(), "exhaustive_scenarios": n,
            "handles": nhandles(kind), "seeded_random_walks": walks, "walk_length": wlen, "walk_alphabet": wide.len(), "seed": seed,
        }));
    }
    // C11: every git command of add_version / add_snapshot on handle 0 fails in turn (three ways), every handle restarts, and the
    // protocol must still hold while both replicas go on adding versions
    if only.as_deref().map(|o| o.split(',').any(|k| k == "git-fault")).unwrap_or(false) {
        let kmax = if thorough { 16usize } else { 7usize };
        let fb = bases("git-fault");
        let follow: Vec<Vec<Call>> = vec![
            vec![Call::Add(1, P::Last, 1), Call::Add(0, P::Last, 3), Call::GetChild(1, P::Prev)],
            vec![Call::Add(0, P::Last, 3), Call::Add(1, P::Last, 1), Call::GetChild(0, P::Nil)],
        ];
        let modes: Vec<&str> = if thorough { vec!["before", "after", "stop"] } else { vec!["before", "after", "stop"] };
        let mut n = 0usize;
        for (bi, base) in fb.iter().enumerate() {
            if !thorough && bi == 1 {
                continue;
            }
            for k in 1..=kmax {
                for mode in &modes {
                    for (fi, f) in follow.iter().enumerate() {
                        let _ = fi;
                        let mut seq = vec![Call::FaultAdd(P::Last, 1, k, mode.to_string())];
                        if base.is_empty() {
                            seq = vec![Call::FaultAdd(P::Nil, 1, k, mode.to_string())];
                        }
                        seq.extend(f.iter().cloned());
                        scenarios.push(Scenario { kind: "git-fault".into(), base: base.clone(), seq, walk: false });
                        n += 1;
                    }
                    if bi == 2 && (thorough || *mode == "after") {
                        let mut seq = vec![Call::FaultSnap(P::Last, 1, k, mode.to_string())];
                        seq.extend(follow[0].iter().cloned());
                        scenarios.push(Scenario { kind: "git-fault".into(), base: base.clone(), seq, walk: false });
                        n += 1;
                    }
                }
            }
        }
        bounds.insert("git-fault".into(), serde_json::json!([{"fault_positions": kmax, "fault_kinds": modes, "bases": if thorough { 3 } else { 2 }, "follow_ups": follow.len(), "scenarios": n,
            "what": "k-th git command of add_version / add_snapshot on handle 0 fails (before / after / from there on), all handles restart, both replicas go on"}]));
    }
    let mut seal_result: Option<(usize, Option<Mismatch>)> = None;
    if only.as_deref().map(|o| o.split(',').any(|k| k == "git-seal")).unwrap_or(false) {
        let r = rt();
        let mut n = 0usize;
        let mut failure = None;
        for pk in [1u8, 0, 2] {
            if pk == 2 && !thorough {
                continue;
            }
            match r.block_on(seal_checks(&work.join("seal"), pk, thorough || pk != 2)) {
                Ok(k) => n += k,
                Err(m) => {
                    failure = Some(m);
                    break;
                }
            }
        }
        let _ = std::fs::remove_dir_all(work.join("seal"));
        bounds.insert("git-seal".into(), serde_json::json!([{"payloads": if thorough { 3 } else { 2 }, "checks": n,
            "what": "sealed form in the working tree; every single-bit modification of each byte and every truncation of a version file; re-labelled version and snapshot; wrong secret"}]));
        seal_result = Some((n, failure));
    }
    // slow (git) scenarios first so that the workers finish together
    scenarios.sort_by_key(|s| if s.kind == "local" { 1 } else { 0 });
    if let Some(l) = get("--limit").and_then(|s| s.parse::<usize>().ok()) {
        scenarios.truncate(l);
    }
    let total = scenarios.len();
    let scenarios = std::sync::Arc::new(scenarios);
    let next = std::sync::Arc::new(std::sync::atomic::AtomicUsize::new(0));
    let stop = std::sync::Arc::new(std::sync::atomic::AtomicBool::new(false));
    let t0 = std::time::Instant::now();
    let mut handles = Vec::new();
    for j in 0..jobs {
        let scenarios = scenarios.clone();
        let next = next.clone();
        let stop = stop.clone();
        let dir = work.join(format!("w{j}"));
        let known = known.clone();
        handles.push(std::thread::spawn(move || {
            let rt = tokio::runtime::Builder::new_current_thread().enable_all().build().unwrap();
            let (mut ran, mut skipped, mut found) = (0usize, 0usize, Vec::<Mismatch>::new());
            let mut w = Worker::new(dir.clone());
            loop {
                if stop.load(std::sync::atomic::Ordering::Relaxed) {
                    break;
                }
                let i = next.fetch_add(1, std::sync::atomic::Ordering::Relaxed);
                if i >= scenarios.len() {
                    break;
                }
                match rt.block_on(w.run_scenario(&scenarios[i])) {
                    Ok(true) => skipped += 1,
                    Ok(false) => ran += 1,
                    Err(m) => {
                        let is_known = known.iter().any(|k| *k == m.signature);
                        found.push(m);
                        if !is_known && found.iter().filter(|m| !known.iter().any(|k| *k == m.signature)).count() >= 2 {
                            stop.store(true, std::sync::atomic::Ordering::Relaxed);
                        }
                    }
                }
            }
            let _ = std::fs::remove_dir_all(&dir);
            (ran, skipped, found)
        }));
    }
    let (mut ran, mut skipped, mut found) = (0, 0, Vec::new());
    for h in handles {
        let (r, s, f) = h.join().expect("worker panicked");
        ran += r;
        skipped += s;
        found.extend(f);
    }
    if let Some((n, f)) = seal_result {
        ran += n;
        if let Some(m) = f {
            found.push(m);
        }
    }
    found.sort_by_key(|m| m.scenario.seq.len() + m.scenario.base.len());
    let mut files = Vec::new();
    // one replay per backend kind among the mismatches that are not known findings; known ones are counted per signature
    let mut seen = std::collections::HashSet::new();
    let mut known_hits: std::collections::BTreeMap<String, usize> = Default::default();
    let mut all_sigs: std::collections::BTreeMap<String, usize> = Default::default();
    let mut new_found = 0usize;
    for m in found.iter() {
        *all_sigs.entry(m.signature.clone()).or_default() += 1;
        if known.iter().any(|k| *k == m.signature) {
            *known_hits.entry(m.signature.clone()).or_default() += 1;
            continue;
        }
        new_found += 1;
        if !seen.insert(m.scenario.kind.clone()) {
            continue;
        }
        let f = out.join(format!("server-conform-{}.json", m.scenario.kind));
        std::fs::write(&f, serde_json::to_string_pretty(m).unwrap()).unwrap();
        files.push(f.to_string_lossy().to_string());
    }
    let summary = serde_json::json!({
        "tier": tier, "scenarios": total, "executed": ran, "outside_contract_skipped": skipped,
        "mismatches": new_found, "known_finding_hits": known_hits, "signatures": all_sigs, "replays": files, "seconds": t0.elapsed().as_secs_f64(), "bounds": bounds,
    });
    println!("SUMMARY {}", summary);
    std::process::exit(if new_found == 0 { 0 } else { 1 });
}
