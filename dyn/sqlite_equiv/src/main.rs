//! Bounded stand-in for the SQLite half of C16 (NOT a proof).
//!
//! The in-memory `Txn` is proved (Verus, unit `inmemory`) to satisfy the `StorageTxn` contract.  The SQLite
//! store is SQL executed by a C library and is outside any deductive verifier installed here, so this
//! program *executes* the real `SqliteStorage` (through the real send_wrapper) next to the real
//! `InMemoryStorage` on every call sequence within a stated bound and compares every return value
//! (collections as multisets, errors as "is an error"), what is visible after commit / abandon,
//! after close + reopen, after opening databases written under the older schemas, and that a
//! read-only handle refuses every modification.  Only sequences that respect the documented contract
//! are generated (set_working_set_item only on an existing index >= 1; nothing after commit).
use serde::{Deserialize, Serialize};
use std::path::{Path, PathBuf};
use taskchampion::storage::inmemory::InMemoryStorage;
use taskchampion::storage::sqlite::SqliteStorage;
use taskchampion::storage::{AccessMode, Storage, StorageTxn, TaskMap};
use taskchampion::Operation;
use uuid::Uuid;

#[derive(Clone, Debug, Serialize, Deserialize, PartialEq)]
enum Call {
    GetTask(u8),
    CreateTask(u8),
    SetTask(u8, u8),
    DeleteTask(u8),
    AllTasks,
    AllTaskUuids,
    BaseVersion,
    SetBaseVersion(u8),
    GetTaskOps(u8),
    Unsynced,
    NumUnsynced,
    AddOp(u8),
    RemoveOp(u8),
    SyncComplete,
    GetWs,
    AddToWs(u8),
    SetWsItem(usize, Option<u8>),
    ClearWs,
    GetPending,
    IsEmpty,
}

#[derive(Clone, Debug, PartialEq)]
enum Obs {
    Err,
    Unit,
    Bool(bool),
    Num(usize),
    Uuid(Uuid),
    OptTask(Option<Vec<(String, String)>>),
    Tasks(Vec<(Uuid, Vec<(String, String)>)>),
    Uuids(Vec<Uuid>),
    Ops(Vec<Operation>),
    Ws(Vec<Option<Uuid>>),
}

fn uuid_of(k: u8) -> Uuid {
    Uuid::from_u128(0x1000_0000_0000_4000_8000_0000_0000_0000u128 + k as u128)
}

fn taskmap_of(k: u8) -> TaskMap {
    let mut m = TaskMap::new();
    match k {
        0 => {}
        1 => {
            m.insert("status".into(), "pending".into());
        }
        2 => {
            m.insert("status".into(), "completed".into());
            m.insert("description".into(), "x \"q\" \\ \u{e9}\u{1F600}\n'".into());
        }
        _ => {
            m.insert("".into(), "".into());
            m.insert("a\u{0}b".into(), "\u{7f}$.Create.uuid".into());
        }
    }
    m
}

fn op_of(k: u8) -> Operation {
    let ts = chrono::DateTime::from_timestamp(1_700_000_000 + k as i64, 0).unwrap();
    match k {
        0 => Operation::Create { uuid: uuid_of(0) },
        1 => Operation::Update {
            uuid: uuid_of(0),
            property: "status".into(),
            old_value: None,
            value: Some("pending".into()),
            timestamp: ts,
        },
        2 => Operation::Delete { uuid: uuid_of(1), old_task: taskmap_of(2) },
        3 => Operation::UndoPoint,
        4 => Operation::Create { uuid: uuid_of(1) },
        _ => Operation::Update {
            uuid: uuid_of(1),
            property: "$.Create.uuid".into(),
            old_value: Some("'".into()),
            value: None,
            timestamp: ts,
        },
    }
}

fn norm_task(t: TaskMap) -> Vec<(String, String)> {
    let mut v: Vec<_> = t.into_iter().collect();
    v.sort();
    v
}

fn ops_obs(v: Vec<Operation>) -> Obs {
    // order matters for operations; Operation's own equality compares task maps as maps
    Obs::Ops(v)
}

async fn run_call(txn: &mut dyn StorageTxn, c: &Call) -> Obs {
    macro_rules! r {
        ($e:expr, $f:expr) => {
            match $e.await {
                Ok(v) => $f(v),
                Err(_) => Obs::Err,
            }
        };
    }
    match c {
        Call::GetTask(u) => r!(txn.get_task(uuid_of(*u)), |v: Option<TaskMap>| Obs::OptTask(v.map(norm_task))),
        Call::CreateTask(u) => r!(txn.create_task(uuid_of(*u)), Obs::Bool),
        Call::SetTask(u, t) => r!(txn.set_task(uuid_of(*u), taskmap_of(*t)), |_| Obs::Unit),
        Call::DeleteTask(u) => r!(txn.delete_task(uuid_of(*u)), Obs::Bool),
        Call::AllTasks => r!(txn.all_tasks(), |v: Vec<(Uuid, TaskMap)>| {
            let mut v: Vec<_> = v.into_iter().map(|(u, t)| (u, norm_task(t))).collect();
            v.sort();
            Obs::Tasks(v)
        }),
        Call::AllTaskUuids => r!(txn.all_task_uuids(), |mut v: Vec<Uuid>| {
            v.sort();
            Obs::Uuids(v)
        }),
        Call::BaseVersion => r!(txn.base_version(), Obs::Uuid),
        Call::SetBaseVersion(u) => r!(txn.set_base_version(uuid_of(100 + *u)), |_| Obs::Unit),
        Call::GetTaskOps(u) => r!(txn.get_task_operations(uuid_of(*u)), ops_obs),
        Call::Unsynced => r!(txn.unsynced_operations(), ops_obs),
        Call::NumUnsynced => r!(txn.num_unsynced_operations(), Obs::Num),
        Call::AddOp(o) => r!(txn.add_operation(op_of(*o)), |_| Obs::Unit),
        Call::RemoveOp(o) => r!(txn.remove_operation(op_of(*o)), |_| Obs::Unit),
        Call::SyncComplete => r!(txn.sync_complete(), |_| Obs::Unit),
        Call::GetWs => r!(txn.get_working_set(), Obs::Ws),
        Call::AddToWs(u) => r!(txn.add_to_working_set(uuid_of(*u)), Obs::Num),
        Call::SetWsItem(i, u) => r!(txn.set_working_set_item(*i, u.map(uuid_of)), |_| Obs::Unit),
        Call::ClearWs => r!(txn.clear_working_set(), |_| Obs::Unit),
        Call::GetPending => r!(txn.get_pending_tasks(), |v: Vec<(Uuid, TaskMap)>| {
            let mut v: Vec<_> = v.into_iter().map(|(u, t)| (u, norm_task(t))).collect();
            v.sort();
            Obs::Tasks(v)
        }),
        Call::IsEmpty => r!(txn.is_empty(), Obs::Bool),
    }
}

fn observers(nu: u8) -> Vec<Call> {
    let mut v = vec![
        Call::AllTasks,
        Call::AllTaskUuids,
        Call::BaseVersion,
        Call::Unsynced,
        Call::NumUnsynced,
        Call::GetWs,
        Call::GetPending,
        Call::IsEmpty,
    ];
    for u in 0..nu {
        v.push(Call::GetTask(u));
        v.push(Call::GetTaskOps(u));
    }
    v
}

async fn observe(txn: &mut dyn StorageTxn, nu: u8) -> Vec<Obs> {
    let mut out = Vec::new();
    for c in observers(nu) {
        out.push(run_call(txn, &c).await);
    }
    out
}

/// The documented contract's preconditions, evaluated on the reference (proved) implementation.
async fn in_contract(mem: &mut dyn StorageTxn, c: &Call) -> bool {
    match c {
        Call::SetWsItem(i, _) => match mem.get_working_set().await {
            Ok(ws) => *i >= 1 && *i < ws.len(),
            Err(_) => false,
        },
        _ => true,
    }
}

#[derive(Clone, Copy, Debug, Serialize, Deserialize, PartialEq)]
enum End {
    Abandon,
    Commit,
    CommitReopen,
    AbandonReopen,
}

#[derive(Clone, Debug, Serialize, Deserialize)]
struct Scenario {
    kind: String, // "rw" | "readonly" | "legacy-0.8" | "legacy-0.9" | "legacy-0.1"
    base: Vec<Call>,
    seq: Vec<Call>,
    end: End,
}

#[derive(Debug, Serialize)]
struct Mismatch {
    scenario: Scenario,
    at: String,
    sqlite: String,
    inmemory: String,
}

struct Pair {
    dir: PathBuf,
    sq: Option<SqliteStorage>,
    mem: InMemoryStorage,
}

impl Pair {
    async fn fresh(dir: &Path) -> Pair {
        let _ = std::fs::remove_dir_all(dir);
        std::fs::create_dir_all(dir).unwrap();
        let sq = SqliteStorage::new(dir, AccessMode::ReadWrite, true).await.expect("open sqlite");
        Pair { dir: dir.to_path_buf(), sq: Some(sq), mem: InMemoryStorage::new() }
    }
    async fn reopen(&mut self, mode: AccessMode) {
        self.sq = None; // close
        self.sq = Some(SqliteStorage::new(&self.dir, mode, false).await.expect("reopen sqlite"));
    }
}

fn mm(sc: &Scenario, at: String, s: &impl std::fmt::Debug, m: &impl std::fmt::Debug) -> Mismatch {
    Mismatch { scenario: sc.clone(), at, sqlite: format!("{s:?}"), inmemory: format!("{m:?}") }
}

const NU: u8 = 2;

/// Run `calls` in one transaction on both stores, comparing each result; then compare the full
/// observation; then end the transaction as told. Returns Ok(skipped?) or the first mismatch.
async fn run_txn(p: &mut Pair, sc: &Scenario, calls: &[Call], end: End, label: &str) -> Result<bool, Mismatch> {
    {
        let mut st = p.sq.as_mut().unwrap().txn().await.expect("sqlite txn");
        let mut mt = p.mem.txn().await.expect("mem txn");
        for (i, c) in calls.iter().enumerate() {
            if !in_contract(mt.as_mut(), c).await {
                return Ok(true);
            }
            let a = run_call(st.as_mut(), c).await;
            let b = run_call(mt.as_mut(), c).await;
            if a != b {
                return Err(mm(sc, format!("{label} call #{i} {c:?}"), &a, &b));
            }
        }
        let a = observe(st.as_mut(), NU).await;
        let b = observe(mt.as_mut(), NU).await;
        if a != b {
            return Err(mm(sc, format!("{label} observation before {end:?}"), &a, &b));
        }
        if matches!(end, End::Commit | End::CommitReopen) {
            let a = st.commit().await.is_ok();
            let b = mt.commit().await.is_ok();
            if a != b {
                return Err(mm(sc, format!("{label} commit"), &a, &b));
            }
        }
    }
    if matches!(end, End::CommitReopen | End::AbandonReopen) {
        p.reopen(AccessMode::ReadWrite).await;
    }
    Ok(false)
}

async fn compare_now(p: &mut Pair, sc: &Scenario, label: &str) -> Result<Vec<Obs>, Mismatch> {
    let mut st = p.sq.as_mut().unwrap().txn().await.expect("sqlite txn");
    let mut mt = p.mem.txn().await.expect("mem txn");
    let a = observe(st.as_mut(), NU).await;
    let b = observe(mt.as_mut(), NU).await;
    if a != b {
        return Err(mm(sc, label.to_string(), &a, &b));
    }
    Ok(a)
}

fn is_mutator(c: &Call) -> bool {
    matches!(
        c,
        Call::CreateTask(_)
            | Call::SetTask(..)
            | Call::DeleteTask(_)
            | Call::SetBaseVersion(_)
            | Call::AddOp(_)
            | Call::RemoveOp(_)
            | Call::SyncComplete
            | Call::AddToWs(_)
            | Call::SetWsItem(..)
            | Call::ClearWs
    )
}

/// Write the state reached by `base` (on the in-memory store) into a database laid out as an older
/// TaskChampion wrote it.
/// Take a database written by the tree's store back to the schema of TaskChampion 0.9 or of DbVersion (0,1): the version table is
/// dropped / set to (0,1) and `operations.uuid` is the generated column as those versions declared it (double-quoted JSON paths).
fn downgrade(dir: &Path, kind: &str) {
    let con = rusqlite::Connection::open(dir.join("taskchampion.sqlite3")).unwrap();
    con.execute_batch(
        r#"DROP INDEX IF EXISTS operations_by_uuid;
           ALTER TABLE operations DROP COLUMN uuid;
           ALTER TABLE operations ADD COLUMN uuid GENERATED ALWAYS AS (
                coalesce(json_extract(data, "$.Update.uuid"),
                         json_extract(data, "$.Create.uuid"),
                         json_extract(data, "$.Delete.uuid"))) VIRTUAL;
           CREATE INDEX operations_by_uuid ON operations (uuid);"#,
    )
    .unwrap();
    if kind == "legacy-0.9" {
        con.execute_batch("DROP TABLE version;").unwrap();
    } else {
        con.execute_batch("UPDATE version SET major = 0, minor = 1;").unwrap();
    }
    let _: String = con.query_row("PRAGMA wal_checkpoint(TRUNCATE)", [], |_| Ok(String::new())).unwrap_or_default();
}

async fn write_legacy(dir: &Path, kind: &str, mem: &mut InMemoryStorage) {
    let _ = std::fs::remove_dir_all(dir);
    std::fs::create_dir_all(dir).unwrap();
    let mut t = mem.txn().await.unwrap();
    let tasks = t.all_tasks().await.unwrap();
    let ws = t.get_working_set().await.unwrap();
    let base = t.base_version().await.unwrap();
    // an older database has no `synced` column: every stored operation counts as not synced
    let ops = t.unsynced_operations().await.unwrap();
    drop(t);
    let con = rusqlite::Connection::open(dir.join("taskchampion.sqlite3")).unwrap();
    con.execute_batch(
        "CREATE TABLE operations (id INTEGER PRIMARY KEY AUTOINCREMENT, data STRING);
         CREATE TABLE sync_meta (key STRING PRIMARY KEY, value STRING);
         CREATE TABLE tasks (uuid STRING PRIMARY KEY, data STRING);
         CREATE TABLE working_set (id INTEGER PRIMARY KEY, uuid STRING);",
    )
    .unwrap();
    if kind != "legacy-0.8" {
        con.execute_batch(
            r#"ALTER TABLE operations ADD COLUMN uuid GENERATED ALWAYS AS (
                coalesce(json_extract(data, "$.Update.uuid"),
                         json_extract(data, "$.Create.uuid"),
                         json_extract(data, "$.Delete.uuid"))) VIRTUAL;
               CREATE INDEX operations_by_uuid ON operations (uuid);
               ALTER TABLE operations ADD COLUMN synced bool DEFAULT false;
               CREATE INDEX operations_by_synced ON operations (synced);"#,
        )
        .unwrap();
    }
    if kind == "legacy-0.1" {
        con.execute_batch(
            "CREATE TABLE version (singleton INTEGER PRIMARY KEY CHECK (singleton = 0), major INTEGER, minor INTEGER);
             INSERT INTO version (singleton, major, minor) VALUES (0, 0, 1);",
        )
        .unwrap();
    }
    for (u, m) in tasks {
        con.execute(
            "INSERT INTO tasks (uuid, data) VALUES (?, ?)",
            rusqlite::params![u.to_string(), serde_json::to_string(&m).unwrap()],
        )
        .unwrap();
    }
    for o in ops {
        con.execute("INSERT INTO operations (data) VALUES (?)", rusqlite::params![serde_json::to_string(&o).unwrap()])
            .unwrap();
    }
    for (i, u) in ws.iter().enumerate() {
        if let Some(u) = u {
            con.execute("INSERT INTO working_set (id, uuid) VALUES (?, ?)", rusqlite::params![i, u.to_string()])
                .unwrap();
        }
    }
    if base != Uuid::nil() {
        con.execute(
            "INSERT INTO sync_meta (key, value) VALUES ('base_version', ?)",
            rusqlite::params![base.to_string()],
        )
        .unwrap();
    }
}

/// Per-worker state: database templates (one per kind group and base state) and a pair that can be reused while
/// transactions are only abandoned.
struct Worker {
    dir: PathBuf,
    templates: std::collections::HashMap<String, bool>,
    cached: Option<(String, Pair, Vec<Obs>)>,
}

fn copy_dir(from: &Path, to: &Path) {
    let _ = std::fs::remove_dir_all(to);
    std::fs::create_dir_all(to).unwrap();
    for e in std::fs::read_dir(from).unwrap() {
        let e = e.unwrap();
        std::fs::copy(e.path(), to.join(e.file_name())).unwrap();
    }
}

impl Worker {
    fn new(dir: PathBuf) -> Worker {
        Worker { dir, templates: Default::default(), cached: None }
    }

    /// Both stores in the state reached by the scenario's base (committed, SQLite closed and opened again from a copy of
    /// the template), or None if the base is outside the contract.
    async fn prepare(&mut self, sc: &Scenario) -> Result<Option<Pair>, Mismatch> {
        let legacy = sc.kind.starts_with("legacy-");
        let group = if legacy { sc.kind.clone() } else { "rw".to_string() };
        let key = format!("{group}-{}", serde_json::to_string(&sc.base).unwrap());
        let tdir = self.dir.join(format!("tmpl-{:x}", fxhash(&key)));
        // a 0.8 database has no `synced` column (every stored operation counts as not synced): its base has no sync_complete;
        // 0.9 and (0,1) databases are written by the tree's own store and then taken back to the old schema, flags included
        let written_old = sc.kind == "legacy-0.8";
        let base: Vec<Call> =
            sc.base.iter().filter(|c| !(written_old && **c == Call::SyncComplete)).cloned().collect();
        if !self.templates.contains_key(&key) {
            let ok = if legacy && !written_old {
                let mut p = Pair::fresh(&tdir).await;
                let skipped = run_txn(&mut p, sc, &base, End::Commit, "base").await?;
                p.sq = None;
                if !skipped {
                    downgrade(&tdir, &sc.kind);
                }
                !skipped
            } else if legacy {
                let mut mem = InMemoryStorage::new();
                let mut ok = true;
                {
                    let mut mt = mem.txn().await.unwrap();
                    for c in &base {
                        if !in_contract(mt.as_mut(), c).await {
                            ok = false;
                            break;
                        }
                        run_call(mt.as_mut(), c).await;
                    }
                    mt.commit().await.unwrap();
                }
                if ok {
                    write_legacy(&tdir, &sc.kind, &mut mem).await;
                }
                ok
            } else {
                let mut p = Pair::fresh(&tdir).await;
                let skipped = run_txn(&mut p, sc, &base, End::Commit, "base").await?;
                p.sq = None;
                !skipped
            };
            self.templates.insert(key.clone(), ok);
        }
        if !self.templates[&key] {
            return Ok(None);
        }
        let work = self.dir.join("db");
        copy_dir(&tdir, &work);
        let mut mem = InMemoryStorage::new();
        {
            let mut mt = mem.txn().await.unwrap();
            for c in &base {
                run_call(mt.as_mut(), c).await;
            }
            mt.commit().await.unwrap();
        }
        let sq = SqliteStorage::new(&work, AccessMode::ReadWrite, false).await.expect("open sqlite copy");
        Ok(Some(Pair { dir: work, sq: Some(sq), mem }))
    }

    async fn run_scenario(&mut self, sc: &Scenario) -> Result<bool, Mismatch> {
        let key = format!("{}-{}", sc.kind, serde_json::to_string(&sc.base).unwrap());
        match sc.kind.as_str() {
            "rw" => {
                let reuse = matches!(&self.cached, Some((k, _, _)) if *k == key);
                let (mut p, before) = if reuse {
                    let (_, p, b) = self.cached.take().unwrap();
                    (p, b)
                } else {
                    self.cached = None;
                    let Some(mut p) = self.prepare(sc).await? else { return Ok(true) };
                    let before = compare_now(&mut p, sc, "after base commit (database closed and reopened)").await?;
                    (p, before)
                };
                if run_txn(&mut p, sc, &sc.seq, sc.end, "seq").await? {
                    // outside the contract; the transaction was dropped
                    self.cached = Some((key, p, before));
                    return Ok(true);
                }
                let after = compare_now(&mut p, sc, &format!("fresh transaction after {:?}", sc.end)).await?;
                if matches!(sc.end, End::Abandon | End::AbandonReopen) {
                    if after != before {
                        return Err(mm(sc, "abandoned transaction left something behind (both stores)".into(), &after, &before));
                    }
                    self.cached = Some((key, p, before));
                }
                Ok(false)
            }
            "readonly" => {
                self.cached = None;
                let Some(mut p) = self.prepare(sc).await? else { return Ok(true) };
                let before = compare_now(&mut p, sc, "after base commit").await?;
                p.reopen(AccessMode::ReadOnly).await;
                {
                    let mut st = p.sq.as_mut().unwrap().txn().await.expect("sqlite txn");
                    for c in &sc.seq {
                        let a = run_call(st.as_mut(), c).await;
                        if is_mutator(c) && a != Obs::Err {
                            return Err(mm(sc, format!("read-only store accepted {c:?}"), &a, &Obs::Err));
                        }
                    }
                    let a = observe(st.as_mut(), NU).await;
                    if a != before {
                        return Err(mm(sc, "read-only transaction changed what is visible".into(), &a, &before));
                    }
                }
                p.reopen(AccessMode::ReadWrite).await;
                let after = compare_now(&mut p, sc, "after read-only session").await?;
                if after != before {
                    return Err(mm(sc, "read-only session changed the stored contents".into(), &after, &before));
                }
                Ok(false)
            }
            k if k.starts_with("legacy-") => {
                self.cached = None;
                let Some(mut p) = self.prepare(sc).await? else { return Ok(true) };
                compare_now(&mut p, sc, "after opening the legacy database").await?;
                if run_txn(&mut p, sc, &sc.seq, sc.end, "seq").await? {
                    return Ok(true);
                }
                compare_now(&mut p, sc, "fresh transaction after the sequence on the upgraded database").await?;
                Ok(false)
            }
            other => panic!("unknown scenario kind {other}"),
        }
    }
}

fn fxhash(s: &str) -> u64 {
    let mut h: u64 = 0xcbf29ce484222325;
    for b in s.bytes() {
        h ^= b as u64;
        h = h.wrapping_mul(0x100000001b3);
    }
    h
}

fn mutators(nu: u8, nt: u8, no: u8, ni: usize) -> Vec<Call> {
    let mut v = Vec::new();
    for u in 0..nu {
        v.push(Call::CreateTask(u));
        v.push(Call::DeleteTask(u));
        v.push(Call::AddToWs(u));
        for t in 0..nt {
            v.push(Call::SetTask(u, t));
        }
    }
    for o in 0..no {
        v.push(Call::AddOp(o));
        v.push(Call::RemoveOp(o));
    }
    v.push(Call::SetBaseVersion(0));
    v.push(Call::SyncComplete);
    v.push(Call::ClearWs);
    for i in 1..=ni {
        v.push(Call::SetWsItem(i, None));
        for u in 0..nu {
            v.push(Call::SetWsItem(i, Some(u)));
        }
    }
    v
}

fn bases() -> Vec<Vec<Call>> {
    vec![
        vec![],
        // tasks, operations (one for a task that does not exist), a working set with a hole
        vec![
            Call::SetTask(0, 1),
            Call::AddOp(0),
            Call::AddOp(1),
            Call::AddOp(2),
            Call::AddToWs(0),
            Call::AddToWs(1),
            Call::AddToWs(0),
            Call::SetWsItem(2, None),
            Call::SetBaseVersion(1),
        ],
        // synced history, undo point, a listed task that is missing
        vec![
            Call::SetTask(1, 2),
            Call::AddOp(4),
            Call::AddOp(5),
            Call::AddOp(3),
            Call::SyncComplete,
            Call::AddOp(3),
            Call::AddOp(1),
            Call::AddToWs(1),
            Call::AddToWs(0),
        ],
    ]
}

struct Plan {
    alphabet: Vec<Call>,
    depth: usize,
    ends: Vec<End>,
    kinds: Vec<&'static str>,
}

fn seqs(alpha: &[Call], depth: usize, f: &mut dyn FnMut(&[Call])) {
    fn rec(alpha: &[Call], depth: usize, cur: &mut Vec<Call>, f: &mut dyn FnMut(&[Call])) {
        f(cur);
        if cur.len() == depth {
            return;
        }
        for c in alpha {
            cur.push(c.clone());
            rec(alpha, depth, cur, f);
            cur.pop();
        }
    }
    rec(alpha, depth, &mut Vec::new(), f);
}

fn main() {
    let args: Vec<String> = std::env::args().collect();
    let get = |k: &str| args.iter().position(|a| a == k).and_then(|i| args.get(i + 1)).cloned();
    let work = PathBuf::from(get("--work").expect("--work DIR"));
    let out = PathBuf::from(get("--out").expect("--out DIR"));
    std::fs::create_dir_all(&out).unwrap();
    let rt = || tokio::runtime::Builder::new_current_thread().enable_all().build().unwrap();

    if let Some(path) = get("--replay") {
        let v: serde_json::Value = serde_json::from_str(&std::fs::read_to_string(&path).unwrap()).unwrap();
        let sc: Scenario = serde_json::from_value(v["scenario"].clone()).unwrap();
        let mut w = Worker::new(work.join("replay"));
        let res = rt().block_on(w.run_scenario(&sc));
        let _ = std::fs::remove_dir_all(work.join("replay"));
        match res {
            Ok(skipped) => {
                println!("replay: no mismatch (skipped={skipped})");
                std::process::exit(0)
            }
            Err(m) => {
                println!("replay: MISMATCH {}", serde_json::to_string_pretty(&m).unwrap());
                std::process::exit(1)
            }
        }
    }

    let tier = get("--tier").unwrap_or("quick".into());
    let jobs: usize = get("--jobs").and_then(|s| s.parse().ok()).unwrap_or(8);
    // bounds
    let (depth_abandon, depth_commit, depth_other) = if tier == "thorough" { (4, 3, 2) } else { (3, 2, 1) };
    let small = mutators(2, 2, 4, 2);
    let wide = {
        let mut v = mutators(2, 4, 6, 3);
        v.extend(observers(NU));
        v
    };
    let plans = vec![
        Plan { alphabet: small.clone(), depth: depth_abandon, ends: vec![End::Abandon], kinds: vec!["rw"] },
        Plan { alphabet: small.clone(), depth: depth_commit, ends: vec![End::Commit, End::CommitReopen], kinds: vec!["rw"] },
        Plan { alphabet: wide.clone(), depth: depth_commit.min(2), ends: vec![End::CommitReopen, End::AbandonReopen], kinds: vec!["rw"] },
        Plan { alphabet: wide.clone(), depth: depth_other.max(1), ends: vec![End::Abandon], kinds: vec!["readonly"] },
        Plan {
            alphabet: small.clone(),
            depth: depth_other,
            ends: vec![End::CommitReopen],
            kinds: vec!["legacy-0.8", "legacy-0.9", "legacy-0.1"],
        },
    ];
    let mut scenarios: Vec<Scenario> = Vec::new();
    for pl in &plans {
        for kind in &pl.kinds {
            for base in bases() {
                for end in &pl.ends {
                    seqs(&pl.alphabet, pl.depth, &mut |s| {
                        scenarios.push(Scenario { kind: kind.to_string(), base: base.clone(), seq: s.to_vec(), end: *end })
                    });
                }
            }
        }
    }
    let total = scenarios.len();
    let scenarios = std::sync::Arc::new(scenarios);
    let next = std::sync::Arc::new(std::sync::atomic::AtomicUsize::new(0));
    let stop = std::sync::Arc::new(std::sync::atomic::AtomicBool::new(false));
    let t0 = std::time::Instant::now();
    let mut handles = Vec::new();
    for j in 0..jobs {
        let scenarios = scenarios.clone();
        let next = next.clone();
        let stop = stop.clone();
        let dir = work.join(format!("w{j}"));
        handles.push(std::thread::spawn(move || {
            let rt = tokio::runtime::Builder::new_current_thread().enable_all().build().unwrap();
            let mut ran = 0usize;
            let mut skipped = 0usize;
            let mut found: Vec<Mismatch> = Vec::new();
            let mut w = Worker::new(dir.clone());
            'outer: loop {
                let i0 = next.fetch_add(32, std::sync::atomic::Ordering::Relaxed);
                if i0 >= scenarios.len() {
                    break;
                }
                for i in i0..(i0 + 32).min(scenarios.len()) {
                    if stop.load(std::sync::atomic::Ordering::Relaxed) {
                        break 'outer;
                    }
                    match rt.block_on(w.run_scenario(&scenarios[i])) {
                        Ok(true) => skipped += 1,
                        Ok(false) => ran += 1,
                        Err(m) => {
                            found.push(m);
                            w.cached = None;
                            if found.len() >= 3 {
                                stop.store(true, std::sync::atomic::Ordering::Relaxed);
                            }
                        }
                    }
                }
            }
            drop(w);
            let _ = std::fs::remove_dir_all(&dir);
            (ran, skipped, found)
        }));
    }
    let mut ran = 0;
    let mut skipped = 0;
    let mut found = Vec::new();
    for h in handles {
        let (r, s, f) = h.join().expect("worker panicked");
        ran += r;
        skipped += s;
        found.extend(f);
    }
    // shortest first
    found.sort_by_key(|m| m.scenario.seq.len() + m.scenario.base.len());
    let mut files = Vec::new();
    for (i, m) in found.iter().take(3).enumerate() {
        let f = out.join(format!("C16-sqlite-equiv-{i}.json"));
        std::fs::write(&f, serde_json::to_string_pretty(m).unwrap()).unwrap();
        files.push(f.to_string_lossy().to_string());
    }
    let summary = serde_json::json!({
        "tier": tier, "scenarios": total, "executed": ran, "outside_contract_skipped": skipped,
        "mismatches": found.len(), "replays": files, "seconds": t0.elapsed().as_secs_f64(),
        "bounds": {
            "uuids": 2, "abandoned_txn_depth": depth_abandon, "committed_txn_depth": depth_commit,
            "readonly_and_legacy_depth": depth_other.max(1),
            "alphabet_small": small.len(), "alphabet_wide": wide.len(), "base_states": bases().len(),
        },
    });
    println!("SUMMARY {}", summary);
    std::process::exit(if found.is_empty() { 0 } else { 1 });
}
