//! Bounded stand-in for the HTTP half of C08 and C13 (NOT a proof).  The unit `httpsrv` proves how `SyncServer` builds requests
//! and reads responses over *stand-ins* for reqwest (assumption A10).  Here the real client (real reqwest) talks to a
//! protocol-conformant sync server written in this harness on a loopback socket (docs/src/http.md: methods, paths, headers, content
//! types, 200 / 404 / 409), from one or two client handles, on every call sequence within a bound:
//!   * every result is checked against the version-chain contract of C08 (as in `server_conform`), the server's own chain being the
//!     ghost state -- including that a request reported as rejected was not stored;
//!   * every request body the server receives has the documented sealed form and contains no payload bytes in clear (C13);
//!   * a server that modifies, truncates or re-labels what it returns gets an error from the client, never data (C13);
//!   * a response lost after the server processed the request is reported as an error (not retried behind the caller's back).
use serde::{Deserialize, Serialize};
use std::io::{Read, Write};
use std::net::{TcpListener, TcpStream};
use std::sync::{Arc, Mutex};
use taskchampion::server::{AddVersionResult, GetVersionResult, Server, ServerConfig};
use uuid::Uuid;

const HS: &str = "application/vnd.taskchampion.history-segment";
const SS: &str = "application/vnd.taskchampion.snapshot";

#[derive(Default)]
struct State {
    versions: Vec<(Uuid, Uuid, Vec<u8>)>, // (id, parent, sealed body)
    snapshot: Option<(Uuid, Vec<u8>)>,
    /// every request seen: (method, path, content-type, x-client-id, body)
    log: Vec<(String, String, String, String, Vec<u8>)>,
    /// what to do with the next response(s)
    tamper: Tamper,
    protocol_errors: Vec<String>,
}

#[derive(Clone, Copy, Debug, Default, PartialEq, Serialize, Deserialize)]
enum Tamper {
    #[default]
    None,
    /// flip one bit of the body returned by get-child-version / snapshot
    FlipBody(usize),
    /// drop the last byte of the body
    Truncate,
    /// return the body under another version id
    Relabel,
    /// return another version's body under this version's id
    SwapBody,
    /// process the request, then close the connection without answering (once)
    DropResponseOnce,
}

fn read_request(s: &mut TcpStream) -> Option<(String, String, Vec<(String, String)>, Vec<u8>)> {
    let mut buf = Vec::new();
    let mut tmp = [0u8; 4096];
    let header_end;
    loop {
        let n = s.read(&mut tmp).ok()?;
        if n == 0 {
            return None;
        }
        buf.extend_from_slice(&tmp[..n]);
        if let Some(p) = buf.windows(4).position(|w| w == b"\r\n\r\n") {
            header_end = p + 4;
            break;
        }
    }
    let head = String::from_utf8_lossy(&buf[..header_end]).to_string();
    let mut lines = head.split("\r\n");
    let rl = lines.next()?;
    let mut it = rl.split(' ');
    let method = it.next()?.to_string();
    let path = it.next()?.to_string();
    let mut headers = Vec::new();
    for l in lines {
        if let Some((k, v)) = l.split_once(':') {
            headers.push((k.trim().to_ascii_lowercase(), v.trim().to_string()));
        }
    }
    let cl: usize = headers.iter().find(|h| h.0 == "content-length").and_then(|h| h.1.parse().ok()).unwrap_or(0);
    let mut body = buf[header_end..].to_vec();
    while body.len() < cl {
        let n = s.read(&mut tmp).ok()?;
        if n == 0 {
            break;
        }
        body.extend_from_slice(&tmp[..n]);
    }
    Some((method, path, headers, body))
}

fn respond(s: &mut TcpStream, status: &str, headers: &[(String, String)], body: &[u8]) {
    let mut out = format!("HTTP/1.1 {status}\r\nConnection: close\r\nContent-Length: {}\r\n", body.len());
    for (k, v) in headers {
        out.push_str(&format!("{k}: {v}\r\n"));
    }
    out.push_str("\r\n");
    let _ = s.write_all(out.as_bytes());
    let _ = s.write_all(body);
    let _ = s.flush();
}

fn serve(listener: TcpListener, st: Arc<Mutex<State>>, stop: Arc<std::sync::atomic::AtomicBool>) {
    for conn in listener.incoming() {
        if stop.load(std::sync::atomic::Ordering::Relaxed) {
            break;
        }
        let Ok(mut s) = conn else { continue };
        let _ = s.set_read_timeout(Some(std::time::Duration::from_secs(5)));
        let Some((method, path, headers, body)) = read_request(&mut s) else { continue };
        let h = |k: &str| headers.iter().find(|x| x.0 == k).map(|x| x.1.clone()).unwrap_or_default();
        let mut g = st.lock().unwrap();
        g.log.push((method.clone(), path.clone(), h("content-type"), h("x-client-id"), body.clone()));
        let drop_it = g.tamper == Tamper::DropResponseOnce;
        let mut status = "200 OK".to_string();
        let mut rh: Vec<(String, String)> = Vec::new();
        let mut rb: Vec<u8> = Vec::new();
        let seg: Vec<&str> = path.trim_start_matches('/').split('/').collect();
        match (method.as_str(), seg.as_slice()) {
            ("POST", ["v1", "client", "add-version", parent]) => {
                if h("content-type") != HS {
                    g.protocol_errors.push(format!("add-version with content-type {:?}", h("content-type")));
                }
                match Uuid::parse_str(parent) {
                    Ok(parent) => {
                        let latest = g.versions.last().map(|v| v.0);
                        if latest.is_none() || latest == Some(parent) {
                            let id = Uuid::new_v4();
                            g.versions.push((id, parent, body.clone()));
                            rh.push(("X-Version-Id".into(), id.to_string()));
                        } else {
                            status = "409 Conflict".into();
                            rh.push(("X-Parent-Version-Id".into(), latest.unwrap().to_string()));
                        }
                    }
                    Err(_) => status = "400 Bad Request".into(),
                }
            }
            ("GET", ["v1", "client", "get-child-version", parent]) => match Uuid::parse_str(parent) {
                Ok(parent) => match g.versions.iter().position(|v| v.1 == parent) {
                    Some(i) => {
                        let (id, mut par, mut b) = g.versions[i].clone();
                        match g.tamper {
                            Tamper::FlipBody(k) => {
                                if !b.is_empty() {
                                    let k = k % b.len();
                                    b[k] ^= 1 << (k % 8);
                                }
                            }
                            Tamper::Truncate => {
                                b.pop();
                            }
                            // in the HTTP representation a version is bound to its PARENT version id (docs/src/encryption.md): that is
                            // the label a server can forge detectably; X-Version-Id is not authenticated, by design
                            Tamper::Relabel => par = Uuid::new_v4(),
                            Tamper::SwapBody => {
                                if let Some(o) = g.versions.iter().find(|v| v.0 != id) {
                                    b = o.2.clone();
                                }
                            }
                            _ => {}
                        }
                        rh.push(("X-Version-Id".into(), id.to_string()));
                        rh.push(("X-Parent-Version-Id".into(), par.to_string()));
                        rh.push(("Content-Type".into(), HS.into()));
                        rb = b;
                    }
                    None => status = "404 Not Found".into(),
                },
                Err(_) => status = "400 Bad Request".into(),
            },
            ("POST", ["v1", "client", "add-snapshot", v]) => {
                if h("content-type") != SS {
                    g.protocol_errors.push(format!("add-snapshot with content-type {:?}", h("content-type")));
                }
                match Uuid::parse_str(v) {
                    Ok(v) if g.versions.iter().any(|x| x.0 == v) => g.snapshot = Some((v, body.clone())),
                    _ => status = "400 Bad Request".into(),
                }
            }
            ("GET", ["v1", "client", "snapshot"]) => match g.snapshot.clone() {
                Some((mut v, mut b)) => {
                    match g.tamper {
                        Tamper::FlipBody(k) => {
                            let k = k % b.len().max(1);
                            if !b.is_empty() {
                                b[k] ^= 1 << (k % 8);
                            }
                        }
                        Tamper::Truncate => {
                            b.pop();
                        }
                        Tamper::Relabel => v = g.versions.iter().map(|x| x.0).find(|x| *x != v).unwrap_or(Uuid::new_v4()),
                        Tamper::SwapBody => {
                            if let Some(o) = g.versions.iter().find(|x| x.0 == v) {
                                // the sealed history segment of another *kind* of object bound to another id (its parent)
                                b = o.2.clone();
                            }
                        }
                        _ => {}
                    }
                    rh.push(("X-Version-Id".into(), v.to_string()));
                    rh.push(("Content-Type".into(), SS.into()));
                    rb = b;
                }
                None => status = "404 Not Found".into(),
            },
            _ => {
                g.protocol_errors.push(format!("unknown request {method} {path}"));
                status = "404 Not Found".into();
            }
        }
        if h("x-client-id").is_empty() {
            g.protocol_errors.push(format!("{method} {path} without X-Client-Id"));
        }
        if drop_it {
            g.tamper = Tamper::None;
            drop(g);
            let _ = s.shutdown(std::net::Shutdown::Both);
            continue;
        }
        drop(g);
        respond(&mut s, &status, &rh, &rb);
    }
}

#[derive(Clone, Copy, Debug, Serialize, Deserialize, PartialEq)]
enum P {
    Nil,
    Last,
    Prev,
    Unknown,
}

#[derive(Clone, Debug, Serialize, Deserialize, PartialEq)]
enum Call {
    Add(usize, P, u8),
    GetChild(usize, P),
    AddSnap(usize, P, u8),
    GetSnap(usize),
    /// the next response of the server is tampered with / lost
    Tamper(Tamper),
}

#[derive(Debug, Serialize)]
struct Mismatch {
    scenario: Vec<Call>,
    at: String,
    got: String,
    expected: String,
}

fn payload(k: u8) -> Vec<u8> {
    match k {
        0 => vec![],
        1 => b"PAYLOAD {\"operations\":[\"my secret plan\"]} PAYLOAD".to_vec(),
        2 => (0..70_000u32).map(|i| (i % 251) as u8).collect(),
        _ => vec![0xff, 0xfe, 0x00, 0x80, b'\n', b'x', b'y', b'z'],
    }
}

fn contains(hay: &[u8], needle: &[u8]) -> bool {
    needle.len() >= 6 && hay.windows(needle.len()).any(|w| w == needle)
}

struct World {
    st: Arc<Mutex<State>>,
    handles: Vec<Box<dyn Server>>,
    /// what the clients submitted, by version id (the server only ever sees sealed bytes)
    plain: Vec<(Uuid, Uuid, Vec<u8>)>,
    snaps: Vec<(Uuid, Vec<u8>)>,
    unknown: Uuid,
}

impl World {
    fn latest(&self) -> Option<Uuid> {
        self.plain.last().map(|v| v.0)
    }
    fn resolve(&self, p: P) -> Option<Uuid> {
        match p {
            P::Nil => Some(Uuid::nil()),
            P::Last => self.latest(),
            P::Prev => (self.plain.len() >= 2).then(|| self.plain[self.plain.len() - 2].0),
            P::Unknown => Some(self.unknown),
        }
    }
}

async fn step(w: &mut World, sc: &[Call], i: usize, c: &Call) -> Result<bool, Mismatch> {
    let mm = |at: String, got: String, expected: &str| Mismatch { scenario: sc.to_vec(), at, got, expected: expected.to_string() };
    let at = format!("call #{i} {c:?}");
    let tamper = w.st.lock().unwrap().tamper;
    match c {
        Call::Tamper(t) => {
            w.st.lock().unwrap().tamper = *t;
            Ok(true)
        }
        Call::Add(h, p, k) => {
            let Some(parent) = w.resolve(*p) else { return Ok(false) };
            let data = payload(*k);
            let before = w.st.lock().unwrap().versions.len();
            let r = w.handles[*h].add_version(parent, data.clone()).await;
            let g = w.st.lock().unwrap();
            let stored: Vec<(Uuid, Uuid, Vec<u8>)> = g.versions[before..].to_vec();
            drop(g);
            let accept = w.latest().is_none() || w.latest() == Some(parent);
            // C13: what reached the server
            for (_, _, body) in &stored {
                if body.first() != Some(&1) || body.len() != 1 + 12 + data.len() + 16 {
                    return Err(mm(at, format!("request body: first byte {:?}, {} bytes for a payload of {}", body.first(), body.len(), data.len()), "format byte 1, 12-byte nonce, payload + 16-byte tag"));
                }
                if contains(body, &data[..data.len().min(16)]) {
                    return Err(mm(at, "the payload appears in the request body".into(), "no task content appears in what is sent"));
                }
            }
            if stored.len() > 1 {
                return Err(mm(at, format!("{} versions stored by one add_version", stored.len()), "at most one request that stores"));
            }
            let lost = tamper == Tamper::DropResponseOnce;
            match r {
                Ok((AddVersionResult::Ok(id), _)) => {
                    if !accept || stored.len() != 1 || stored[0].0 != id || stored[0].1 != parent {
                        return Err(mm(at, format!("Ok({id}) with {} version(s) stored", stored.len()), "accepted exactly when the parent is the latest, reporting the id the server assigned"));
                    }
                    w.plain.push((id, parent, data));
                }
                Ok((AddVersionResult::ExpectedParentVersion(v), _)) => {
                    if !stored.is_empty() {
                        return Err(mm(at, format!("ExpectedParentVersion({v}) although the version was stored by this call"), "a rejected version changes nothing (a lost response is an error, not a second request)"));
                    }
                    if accept || Some(v) != w.latest() {
                        return Err(mm(at, format!("ExpectedParentVersion({v})"), "accepted, or the current latest named"));
                    }
                }
                Err(e) => {
                    if !lost {
                        return Err(mm(at, format!("Err({e})"), "a result"));
                    }
                    // the response was lost: the server may have stored the version; the client must say so by failing. Adopt it.
                    if let Some((id, par, _)) = stored.first() {
                        w.plain.push((*id, *par, data));
                    }
                }
            }
            Ok(true)
        }
        Call::GetChild(h, p) => {
            let Some(parent) = w.resolve(*p) else { return Ok(false) };
            let r = w.handles[*h].get_child_version(parent).await;
            let exp = w.plain.iter().find(|v| v.1 == parent).cloned();
            w.st.lock().unwrap().tamper = if tamper == Tamper::DropResponseOnce { w.st.lock().unwrap().tamper } else { Tamper::None };
            // a lost response to a GET may be answered by an error or by asking again: both are fine; tampered data must be refused
            let lost = tamper == Tamper::DropResponseOnce;
            let tampered = !matches!(tamper, Tamper::None | Tamper::DropResponseOnce) && exp.is_some();
            match (r, exp) {
                (Err(_), _) if tampered || lost => Ok(true),
                (Ok(GetVersionResult::Version { version_id, history_segment, .. }), Some(_)) if tampered => Err(mm(at, format!("Version {version_id}, {} bytes, from a response that was {tamper:?}", history_segment.len()), "an error: modified, truncated, re-labelled or foreign data is rejected rather than returned")),
                (Ok(GetVersionResult::NoSuchVersion), None) => Ok(true),
                (Ok(GetVersionResult::Version { version_id, parent_version_id, history_segment }), Some(e)) => {
                    if version_id != e.0 || parent_version_id != e.1 || history_segment != e.2 {
                        return Err(mm(at, format!("Version {version_id} parent {parent_version_id} {} bytes", history_segment.len()), "the accepted version, byte for byte"));
                    }
                    Ok(true)
                }
                (Ok(GetVersionResult::NoSuchVersion), Some(e)) => Err(mm(at, "NoSuchVersion".into(), &format!("Version {}", e.0))),
                (Ok(GetVersionResult::Version { version_id, .. }), None) => Err(mm(at, format!("Version {version_id}"), "NoSuchVersion")),
                (Err(e), _) => Err(mm(at, format!("Err({e})"), "a result")),
            }
        }
        Call::AddSnap(h, p, k) => {
            if matches!(p, P::Nil | P::Unknown) {
                return Ok(false);
            }
            let Some(v) = w.resolve(*p) else { return Ok(false) };
            let data = payload(*k);
            let r = w.handles[*h].add_snapshot(v, data.clone()).await;
            if tamper == Tamper::DropResponseOnce {
                // storing a snapshot again is harmless: an error or a second request are both fine
            } else if let Err(e) = r {
                return Err(mm(at, format!("Err({e})"), "Ok"));
            }
            let g = w.st.lock().unwrap();
            if let Some((sv, body)) = &g.snapshot {
                if *sv == v && (body.first() != Some(&1) || body.len() != 1 + 12 + data.len() + 16 || contains(body, &data[..data.len().min(16)])) {
                    return Err(mm(at, format!("snapshot body: first byte {:?}, {} bytes", body.first(), body.len()), "the documented sealed form, no content in clear"));
                }
            }
            drop(g);
            w.snaps.push((v, data));
            Ok(true)
        }
        Call::GetSnap(h) => {
            let r = w.handles[*h].get_snapshot().await;
            let have = w.st.lock().unwrap().snapshot.is_some();
            w.st.lock().unwrap().tamper = Tamper::None;
            let tampered = !matches!(tamper, Tamper::None | Tamper::DropResponseOnce) && have;
            match r {
                Err(_) if tampered || tamper == Tamper::DropResponseOnce => Ok(true),
                Ok(Some((v, d))) if tampered => Err(mm(at, format!("snapshot for {v}, {} bytes, from a response that was {tamper:?}", d.len()), "an error")),
                Ok(None) if !have => Ok(true),
                Ok(Some((v, d))) => {
                    if w.snaps.iter().any(|s| s.0 == v && s.1 == d) {
                        Ok(true)
                    } else {
                        Err(mm(at, format!("snapshot for {v}, {} bytes", d.len()), "a snapshot that was stored, intact, with its version"))
                    }
                }
                Ok(None) => Err(mm(at, "None".into(), "the stored snapshot")),
                Err(e) => Err(mm(at, format!("Err({e})"), "a result")),
            }
        }
    }
}

/// One server thread and two client handles per worker, reused for every scenario (a client derives its key once: PBKDF2 with
/// 600000 iterations); the server's state is emptied between scenarios, the clients hold none.
struct Worker {
    st: Arc<Mutex<State>>,
    port: u16,
    stop: Arc<std::sync::atomic::AtomicBool>,
    th: Option<std::thread::JoinHandle<()>>,
    handles: Option<Vec<Box<dyn Server>>>,
    client_id: Uuid,
}

impl Worker {
    async fn new() -> Worker {
        let listener = TcpListener::bind("127.0.0.1:0").expect("bind");
        let port = listener.local_addr().unwrap().port();
        let st = Arc::new(Mutex::new(State::default()));
        let stop = Arc::new(std::sync::atomic::AtomicBool::new(false));
        let th = {
            let (st, stop) = (st.clone(), stop.clone());
            std::thread::spawn(move || serve(listener, st, stop))
        };
        let client_id = Uuid::from_u128(0x3000_0000_0000_4000_8000_0000_0000_0001);
        let mut handles: Vec<Box<dyn Server>> = Vec::new();
        for _ in 0..2 {
            let cfg = ServerConfig::Remote { url: format!("http://127.0.0.1:{port}"), client_id, encryption_secret: b"secret".to_vec() };
            handles.push(cfg.into_server().await.expect("client"));
        }
        Worker { st, port, stop, th: Some(th), handles: Some(handles), client_id }
    }

    async fn run_scenario(&mut self, sc: &[Call]) -> Result<bool, Mismatch> {
        *self.st.lock().unwrap() = State::default();
        let mut w = World { st: self.st.clone(), handles: self.handles.take().unwrap(), plain: vec![], snaps: vec![], unknown: Uuid::from_u128(0xdead_0000_0000_4000_8000_0000_0000_0002) };
        let mut res = Ok(false);
        for (i, c) in sc.iter().enumerate() {
            match step(&mut w, sc, i, c).await {
                Ok(true) => {}
                Ok(false) => {
                    res = Ok(true);
                    break;
                }
                Err(m) => {
                    res = Err(m);
                    break;
                }
            }
        }
        self.handles = Some(w.handles);
        if let Ok(false) = res {
            let g = self.st.lock().unwrap();
            if let Some(e) = g.protocol_errors.first() {
                res = Err(Mismatch { scenario: sc.to_vec(), at: "what the server received".into(), got: e.clone(), expected: "requests as documented in docs/src/http.md".into() });
            }
            for (m, p, _, cid, _) in &g.log {
                if *cid != self.client_id.to_string() {
                    res = Err(Mismatch { scenario: sc.to_vec(), at: format!("{m} {p}"), got: format!("X-Client-Id {cid:?}"), expected: "the client id in dashed-hex form".into() });
                }
            }
        }
        res
    }
}

impl Drop for Worker {
    fn drop(&mut self) {
        self.stop.store(true, std::sync::atomic::Ordering::Relaxed);
        let _ = TcpStream::connect(("127.0.0.1", self.port));
        self.handles = None;
        if let Some(th) = self.th.take() {
            let _ = th.join();
        }
    }
}

fn seqs(alpha: &[Call], depth: usize, f: &mut dyn FnMut(&[Call])) {
    fn rec(alpha: &[Call], depth: usize, cur: &mut Vec<Call>, f: &mut dyn FnMut(&[Call])) {
        f(cur);
        if cur.len() == depth {
            return;
        }
        for c in alpha {
            cur.push(c.clone());
            rec(alpha, depth, cur, f);
            cur.pop();
        }
    }
    rec(alpha, depth, &mut Vec::new(), f);
}

fn main() {
    let args: Vec<String> = std::env::args().collect();
    let get = |k: &str| args.iter().position(|a| a == k).and_then(|i| args.get(i + 1)).cloned();
    let out = std::path::PathBuf::from(get("--out").expect("--out DIR"));
    std::fs::create_dir_all(&out).unwrap();
    let rt = || tokio::runtime::Builder::new_current_thread().enable_all().build().unwrap();
    if let Some(path) = get("--replay") {
        let v: serde_json::Value = serde_json::from_str(&std::fs::read_to_string(&path).unwrap()).unwrap();
        let sc: Vec<Call> = serde_json::from_value(v["scenario"].clone()).unwrap();
        let r = rt();
        let mut w = r.block_on(Worker::new());
        match r.block_on(w.run_scenario(&sc)) {
            Ok(_) => {
                println!("replay: no deviation");
                std::process::exit(0)
            }
            Err(m) => {
                println!("replay: DEVIATION {}", serde_json::to_string_pretty(&m).unwrap());
                std::process::exit(1)
            }
        }
    }
    let tier = get("--tier").unwrap_or("quick".into());
    let thorough = tier == "thorough";
    let jobs: usize = get("--jobs").and_then(|s| s.parse().ok()).unwrap_or(6);
    let mut alpha = Vec::new();
    for h in 0..2 {
        for p in [P::Nil, P::Last, P::Prev, P::Unknown] {
            alpha.push(Call::Add(h, p, 1));
            alpha.push(Call::GetChild(h, p));
        }
        alpha.push(Call::AddSnap(h, P::Last, 3));
        alpha.push(Call::GetSnap(h));
    }
    let depth = if thorough { 4 } else { 3 };
    let mut scenarios: Vec<Vec<Call>> = Vec::new();
    // (i) plain sequences from two handles
    seqs(&alpha, depth, &mut |s| {
        if s.first().map(|c| matches!(c, Call::Add(1, ..) | Call::GetChild(1, _) | Call::AddSnap(1, ..) | Call::GetSnap(1))).unwrap_or(false) {
            return; // symmetry
        }
        scenarios.push(s.to_vec())
    });
    // (ii) payload kinds
    for k in [0u8, 2, 3] {
        scenarios.push(vec![Call::Add(0, P::Nil, k), Call::GetChild(1, P::Nil), Call::AddSnap(0, P::Last, k), Call::GetSnap(1)]);
    }
    // (iii) a server that tampers with what it returns, or loses a response
    let mut tampers = vec![Tamper::Truncate, Tamper::Relabel, Tamper::SwapBody, Tamper::DropResponseOnce];
    let nflip = if thorough { 1 + 12 + 52 + 16 } else { 24 };
    for k in 0..nflip {
        tampers.push(Tamper::FlipBody(if thorough { k } else { k * 3 + (k % 3) }));
    }
    for t in tampers {
        let base = vec![Call::Add(0, P::Nil, 1), Call::Add(1, P::Last, 1), Call::AddSnap(0, P::Last, 1)];
        for probe in [Call::GetChild(1, P::Nil), Call::GetChild(0, P::Prev), Call::GetSnap(1)] {
            let mut s = base.clone();
            s.push(Call::Tamper(t));
            s.push(probe);
            scenarios.push(s);
        }
        if t == Tamper::DropResponseOnce {
            for follow in [vec![Call::Add(0, P::Last, 1), Call::GetChild(1, P::Prev), Call::Add(1, P::Last, 1)], vec![Call::AddSnap(1, P::Last, 3), Call::GetSnap(0)]] {
                let mut s = base.clone();
                s.push(Call::Tamper(t));
                s.extend(follow);
                scenarios.push(s);
            }
            scenarios.push(vec![Call::Tamper(t), Call::Add(0, P::Nil, 1), Call::GetChild(1, P::Nil), Call::Add(1, P::Last, 1)]);
        }
    }
    let total = scenarios.len();
    let scenarios = Arc::new(scenarios);
    let next = Arc::new(std::sync::atomic::AtomicUsize::new(0));
    let t0 = std::time::Instant::now();
    let mut hs = Vec::new();
    for _ in 0..jobs {
        let scenarios = scenarios.clone();
        let next = next.clone();
        hs.push(std::thread::spawn(move || {
            let rt = tokio::runtime::Builder::new_current_thread().enable_all().build().unwrap();
            let (mut ran, mut skipped, mut found) = (0usize, 0usize, Vec::<Mismatch>::new());
            let mut w = rt.block_on(Worker::new());
            loop {
                let i = next.fetch_add(1, std::sync::atomic::Ordering::Relaxed);
                if i >= scenarios.len() || found.len() >= 2 {
                    break;
                }
                match rt.block_on(w.run_scenario(&scenarios[i])) {
                    Ok(true) => skipped += 1,
                    Ok(false) => ran += 1,
                    Err(m) => found.push(m),
                }
            }
            (ran, skipped, found)
        }));
    }
    let (mut ran, mut skipped, mut found) = (0, 0, Vec::new());
    for h in hs {
        let (r, s, f) = h.join().expect("worker panicked");
        ran += r;
        skipped += s;
        found.extend(f);
    }
    found.sort_by_key(|m| m.scenario.len());
    let mut files = Vec::new();
    if let Some(m) = found.first() {
        let f = out.join("http-conform.json");
        std::fs::write(&f, serde_json::to_string_pretty(m).unwrap()).unwrap();
        files.push(f.to_string_lossy().to_string());
    }
    let summary = serde_json::json!({
        "tier": tier, "scenarios": total, "executed": ran, "outside_contract_skipped": skipped, "mismatches": found.len(), "replays": files,
        "seconds": t0.elapsed().as_secs_f64(),
        "bounds": {"handles": 2, "calls": alpha.len(), "depth": depth, "scenarios_with_a_tampered_or_lost_response": (nflip + 4) * 3 + 3, "bit_flips": nflip},
    });
    println!("SUMMARY {}", summary);
    std::process::exit(if found.is_empty() { 0 } else { 1 });
}
