//! Bounded stand-ins (NOT proofs) for the parts of C14, C18 and C19 that no installed deductive verifier reaches:
//! serde's rendering of operations (derive macros), the string kernels behind the tag / annotation / dependency / UDA
//! accessors (lazy iterator adapters over HashMap iterators, `str` parsing), and the mutators built on them.
//! The real code is executed through its public API, under panic capture, on every input within a stated bound and each
//! result is checked against the property's statement written as code.
//!
//!   --mode c18   every read accessor of Task / TaskData / WorkingSet / DependencyMap / Replica returns normally for every task
//!                map with up to two entries over a grammar of recognised keys, prefixes and hostile values
//!   --mode c19   for every sequence of Task / TaskData mutator calls up to the depth, committing the recorded operations leaves
//!                the stored task identical to the one the caller holds, every Update carries the value the property really had,
//!                what was written reads back, reserved names are refused, `end` follows the status, synthetic tags follow the
//!                stored status / start / wait
//!   --mode c14   every version handed to a harness-side Server is a UTF-8 JSON document listing, in order, exactly the
//!                Create / Delete / Update operations committed (undo points, old values, old tasks never leave), with exactly
//!                the documented fields and RFC 3339 `Z` timestamps; and hand-written versions in the documented format
//!                (other field orders, other timestamp precisions) are applied correctly
use chrono::{DateTime, TimeZone, Utc};
use serde::{Deserialize, Serialize};
use std::collections::HashMap;
use std::panic::{catch_unwind, AssertUnwindSafe};
use std::path::PathBuf;
use std::sync::{Arc, Mutex};
use taskchampion::server::{AddVersionResult, GetVersionResult, HistorySegment, Server, Snapshot, SnapshotUrgency, VersionId};
use taskchampion::storage::inmemory::InMemoryStorage;
use taskchampion::storage::{Storage, TaskMap};
use taskchampion::{Annotation, Operation, Operations, Replica, Status, Tag, Task, TaskData};
use uuid::Uuid;

fn rt() -> tokio::runtime::Runtime {
    tokio::runtime::Builder::new_current_thread().enable_all().build().unwrap()
}

fn uuid_of(k: u8) -> Uuid {
    Uuid::from_u128(0x2000_0000_0000_4000_8000_0000_0000_0000u128 + k as u128)
}

#[derive(Debug, Serialize)]
struct Failure {
    mode: String,
    input: serde_json::Value,
    at: String,
    got: String,
    expected: String,
}

// ------------------------------------------------------------------------------------------------------------------ C18

fn c18_keys() -> Vec<String> {
    let u = uuid_of(1).to_string();
    let mut v: Vec<String> = [
        "status", "description", "entry", "modified", "wait", "due", "end", "start", "priority", "parent", "recur", "until",
        "tag_next", "tag_", "tag_ a", "tag_PENDING", "tag_pending", "tag_+x", "tag_a,b", "tag_1abc", "tag_a:b", "tag_é", "tags",
        "annotation_1700000000", "annotation_", "annotation_abc", "annotation_99999999999999999999", "annotation_-5",
        "annotation_9223372036854775807", "annotation_1700000000.5", "annotation_ 17",
        "dep_", "dep_zzz", "dep_00000000-0000-0000-0000-000000000000",
        "uda.key", "ns.key", ".", "a.b.c", "", " ", "githubid", "\u{0}",
    ]
    .iter()
    .map(|s| s.to_string())
    .collect();
    v.push(format!("dep_{u}"));
    v.push(format!("dep_{}", uuid_of(0)));
    v.push(format!("dep_{}x", u));
    v.push(format!("dep_{}", u.to_uppercase()));
    v.push(format!("dep_{}", u.replace('-', "")));
    // long non-ASCII keys at every byte alignment, in shapes the key parsers accept and reject (leading digit, trailing blank,
    // colon): code that cuts a string at a fixed byte offset panics inside a character
    for prefix in ["tag_", "annotation_", "dep_", "uda.", ""] {
        let mut longs = Vec::new();
        for pad in 0..2 {
            longs.push(format!("{}{}", "a".repeat(pad), "é".repeat(60)));
        }
        for pad in 0..4 {
            longs.push(format!("{}{}", "a".repeat(pad), "\u{1F600}".repeat(30)));
        }
        for l in longs {
            v.push(format!("{prefix}{l}"));
            v.push(format!("{prefix}1{l}"));
            v.push(format!("{prefix}{l} "));
            v.push(format!("{prefix}{l}:x"));
        }
    }
    v
}

fn c18_values() -> Vec<String> {
    let mut v: Vec<String> = [
        "", "pending", "completed", "deleted", "recurring", "bogus", "0", "-1", "1700000000", "99999999999999999999",
        "9223372036854775807", "-9223372036854775808", "8210298412800", "-8334632851201", "253402300800", "1e9", "１２３",
        " 12", "12 ", "+5", "0x10", "\u{0}", "H", "é\u{1F600}",
    ]
    .iter()
    .map(|s| s.to_string())
    .collect();
    v.push("9".repeat(400));
    for pad in 0..2 {
        v.push(format!("{}{}", "1".repeat(pad), "é".repeat(60)));
    }
    for pad in 0..4 {
        v.push(format!("{}{}", "1".repeat(pad), "\u{1F600}".repeat(30)));
    }
    v
}

/// Every public read method; returns a digest so that nothing is optimised away. Panics propagate to the caller's catch_unwind.
fn read_task(t: &Task) -> usize {
    let mut n = 0usize;
    n += t.get_uuid().as_bytes()[0] as usize;
    n += t.get_taskmap().len();
    n += match t.get_status() {
        Status::Unknown(s) => s.len(),
        _ => 1,
    };
    n += t.get_description().len();
    n += t.get_entry().map(|x| x.timestamp() as usize).unwrap_or(0) & 1;
    n += t.get_priority().len();
    n += t.get_wait().is_some() as usize;
    n += t.is_waiting() as usize + t.is_active() as usize + t.is_blocked() as usize + t.is_blocking() as usize;
    let tags: Vec<Tag> = t.get_tags().collect();
    for tag in &tags {
        n += t.has_tag(tag) as usize + tag.is_synthetic() as usize + tag.is_user() as usize + tag.to_string().len();
    }
    let long1 = "é".repeat(40);
    let long2 = format!("a{}", "é".repeat(40));
    for s in ["next", "PENDING", "WAITING", "ACTIVE", "BLOCKED", "UNBLOCKED", "BLOCKING", "COMPLETED", "DELETED", "TAGGED", "", "a b", long1.as_str(), long2.as_str()] {
        if let Ok(tag) = s.parse::<Tag>() {
            n += t.has_tag(&tag) as usize;
        }
        if let Ok(tag) = Tag::try_from(s) {
            n += tag.is_user() as usize;
        }
    }
    for a in t.get_annotations() {
        n += a.description.len() + (a.entry.timestamp() & 1) as usize;
    }
    n += t.get_uda("ns", "key").map(|s| s.len()).unwrap_or(0);
    n += t.get_uda("", "").map(|s| s.len()).unwrap_or(0);
    n += t.get_udas().count();
    n += t.get_legacy_uda("githubid").map(|s| s.len()).unwrap_or(0);
    #[allow(deprecated)]
    {
        n += t.get_user_defined_attribute("uda.key").map(|s| s.len()).unwrap_or(0);
        n += t.get_user_defined_attributes().count();
    }
    n += t.get_legacy_udas().count();
    n += t.get_modified().is_some() as usize + t.get_due().is_some() as usize;
    n += t.get_dependencies().count();
    n += t.get_value("status").map(|s| s.len()).unwrap_or(0);
    for p in ["entry", "modified", "wait", "due", "end", "start", "until", "nope", ""] {
        n += t.get_timestamp(p).is_some() as usize;
    }
    n
}

fn read_taskdata(t: &TaskData) -> usize {
    let mut n = t.get_uuid().as_bytes()[1] as usize;
    n += t.get("status").map(|s| s.len()).unwrap_or(0) + t.has("") as usize + t.properties().count() + t.iter().count();
    n
}

async fn c18_one(map: &TaskMap, listed_missing: bool) -> usize {
    let mut st = InMemoryStorage::new();
    {
        let mut txn = st.txn().await.unwrap();
        txn.set_task(uuid_of(1), map.clone()).await.unwrap();
        // a second task that the first may depend on, pending
        let mut other = TaskMap::new();
        other.insert("status".into(), "pending".into());
        other.insert(format!("dep_{}", uuid_of(1)), "x".into());
        txn.set_task(uuid_of(0), other).await.unwrap();
        txn.add_to_working_set(uuid_of(1)).await.unwrap();
        txn.add_to_working_set(uuid_of(0)).await.unwrap();
        if listed_missing {
            txn.add_to_working_set(uuid_of(9)).await.unwrap();
            txn.set_working_set_item(1, None).await.unwrap();
        }
        txn.commit().await.unwrap();
    }
    let mut rep = Replica::new(st);
    let mut n = 0usize;
    let all = rep.all_tasks().await.unwrap();
    for t in all.values() {
        n += read_task(t);
    }
    for t in rep.all_task_data().await.unwrap().values() {
        n += read_taskdata(t);
    }
    n += rep.all_task_uuids().await.unwrap().len();
    for t in rep.pending_tasks().await.unwrap() {
        n += read_task(&t);
    }
    for t in rep.pending_task_data().await.unwrap() {
        n += read_taskdata(&t);
    }
    let ws = rep.working_set().await.unwrap();
    n += ws.len() + ws.largest_index() + ws.is_empty() as usize + ws.iter().count();
    for i in 0..5 {
        n += ws.by_index(i).is_some() as usize;
    }
    n += ws.by_uuid(uuid_of(1)).unwrap_or(0) + ws.by_uuid(uuid_of(7)).unwrap_or(0);
    for force in [false, true] {
        let dm = rep.dependency_map(force).await.unwrap();
        for k in [0u8, 1, 7] {
            n += dm.dependencies(uuid_of(k)).count() + dm.dependents(uuid_of(k)).count();
        }
    }
    if let Some(t) = rep.get_task(uuid_of(1)).await.unwrap() {
        n += read_task(&t);
        n += read_taskdata(&t.into_task_data());
    }
    n += rep.get_task(uuid_of(7)).await.unwrap().is_some() as usize;
    if let Some(t) = rep.get_task_data(uuid_of(1)).await.unwrap() {
        n += read_taskdata(&t);
    }
    n += rep.get_task_operations(uuid_of(1)).await.unwrap().len();
    n += rep.num_local_operations().await.unwrap() + rep.num_undo_points().await.unwrap();
    n
}

fn mode_c18(thorough: bool, jobs: usize) -> (usize, usize, Vec<Failure>, serde_json::Value) {
    let keys = c18_keys();
    let vals = c18_values();
    let mut maps: Vec<Vec<(String, String)>> = Vec::new();
    maps.push(vec![]);
    for k in &keys {
        for v in &vals {
            maps.push(vec![(k.clone(), v.clone())]);
        }
    }
    // pairs: a status or a wait/start next to every single entry (the combinations the synthetic tags look at) ...
    let ctx: Vec<(String, String)> = [("status", "pending"), ("status", "deleted"), ("status", "weird"), ("wait", "99999999999999999999"), ("wait", "9999999999"), ("start", "x")]
        .iter()
        .map(|(a, b)| (a.to_string(), b.to_string()))
        .collect();
    for c in &ctx {
        for k in &keys {
            for v in &vals {
                if *k != c.0 {
                    maps.push(vec![c.clone(), (k.clone(), v.clone())]);
                }
            }
        }
    }
    // ... and in the thorough tier every pair of entries
    if thorough {
        // (the short keys and values, plus one long one of each: all pairs of everything would be 13 million maps)
        let pk: Vec<&String> = keys.iter().take(48).collect();
        let pv: Vec<&String> = vals.iter().take(26).collect();
        for (i, k1) in pk.iter().enumerate() {
            for k2 in pk.iter().skip(i + 1) {
                for v1 in &pv {
                    for v2 in &pv {
                        maps.push(vec![((*k1).clone(), (*v1).clone()), ((*k2).clone(), (*v2).clone())]);
                    }
                }
            }
        }
    }
    let total = maps.len();
    let maps = Arc::new(maps);
    let next = Arc::new(std::sync::atomic::AtomicUsize::new(0));
    let mut hs = Vec::new();
    for _ in 0..jobs {
        let maps = maps.clone();
        let next = next.clone();
        hs.push(std::thread::spawn(move || {
            let rt = rt();
            let mut fails = Vec::new();
            let mut ran = 0usize;
            loop {
                let i = next.fetch_add(64, std::sync::atomic::Ordering::Relaxed);
                if i >= maps.len() || fails.len() >= 3 {
                    break;
                }
                for m in &maps[i..(i + 64).min(maps.len())] {
                    let map: TaskMap = m.iter().cloned().collect();
                    for listed_missing in [false, true] {
                        ran += 1;
                        let r = catch_unwind(AssertUnwindSafe(|| rt.block_on(c18_one(&map, listed_missing))));
                        if let Err(e) = r {
                            let msg = e.downcast_ref::<String>().cloned().or_else(|| e.downcast_ref::<&str>().map(|s| s.to_string())).unwrap_or_default();
                            fails.push(Failure {
                                mode: "c18".into(),
                                input: serde_json::json!({"task_map": m, "working_set_lists_a_missing_task": listed_missing}),
                                at: "reading the task through the public read methods".into(),
                                got: format!("panic: {msg}"),
                                expected: "every read accessor returns normally".into(),
                            });
                        }
                    }
                }
            }
            (ran, fails)
        }));
    }
    let mut ran = 0;
    let mut fails = Vec::new();
    for h in hs {
        let (r, f) = h.join().unwrap();
        ran += r;
        fails.extend(f);
    }
    (total * 2, ran, fails, serde_json::json!({"keys": keys.len(), "values": vals.len(), "task_maps": total, "entries_per_map": if thorough { "0, 1, and every pair" } else { "0, 1, and every entry next to 6 context entries" }, "each_with_and_without_a_working_set_entry_for_a_missing_task": true}))
}

// ------------------------------------------------------------------------------------------------------------------ C19

#[derive(Clone, Debug, Serialize, Deserialize, PartialEq)]
enum Mut {
    SetStatus(u8),
    SetDescription(u8),
    SetPriority(u8),
    SetEntry(Option<i64>),
    SetWait(Option<i64>),
    SetModified(i64),
    SetValue(u8, Option<u8>),
    Start,
    Stop,
    Done,
    Delete,
    AddTag(u8),
    RemoveTag(u8),
    AddAnnotation(i64, u8),
    RemoveAnnotation(i64),
    SetDue(Option<i64>),
    SetUda(u8, u8, u8),
    RemoveUda(u8, u8),
    SetLegacyUda(u8, u8),
    RemoveLegacyUda(u8),
    AddDep(u8),
    RemoveDep(u8),
    LowUpdate(u8, Option<u8>),
    CommitReload,
}

fn s_of(k: u8) -> String {
    match k {
        0 => "".into(),
        1 => "x".into(),
        2 => "a \"q\" \\ é\n".into(),
        _ => "zz".into(),
    }
}
fn key_of(k: u8) -> String {
    match k {
        0 => "description".into(),
        1 => "status".into(),
        2 => "custom".into(),
        3 => "tag_low".into(),
        4 => "end".into(),
        _ => "modified".into(),
    }
}
fn status_of(k: u8) -> Status {
    match k {
        0 => Status::Pending,
        1 => Status::Completed,
        2 => Status::Deleted,
        3 => Status::Recurring,
        _ => Status::Unknown("weird".into()),
    }
}
fn tag_of(k: u8) -> Option<Tag> {
    match k {
        0 => "next".parse().ok(),
        1 => "work".parse().ok(),
        2 => "PENDING".parse().ok(), // synthetic: must be refused by add_tag / remove_tag
        _ => "WAITING".parse().ok(),
    }
}
fn ts(s: i64) -> DateTime<Utc> {
    Utc.timestamp_opt(s, 0).unwrap()
}

struct Held {
    task: Task,
    ops: Operations,
}

/// Apply one mutator to the held task; check the call-level rules. Err(text) = deviation.
fn apply_mut(h: &mut Held, m: &Mut) -> Result<(), (String, String)> {
    let t = &mut h.task;
    let ops = &mut h.ops;
    let bad = |got: String, exp: &str| Err((got, exp.to_string()));
    match m {
        Mut::SetStatus(k) => {
            let st = status_of(*k);
            t.set_status(st.clone(), ops).map_err(|e| (format!("Err({e})"), "Ok".to_string()))?;
            if t.get_status() != st {
                return bad(format!("{:?}", t.get_status()), "the status just set");
            }
            let ended = matches!(st, Status::Completed | Status::Deleted);
            if ended != t.get_taskmap().contains_key("end") && matches!(st, Status::Pending | Status::Completed | Status::Deleted) {
                return bad(format!("end present: {}", t.get_taskmap().contains_key("end")), "completing or deleting sets an end time and re-opening clears it");
            }
        }
        Mut::SetDescription(k) => {
            t.set_description(s_of(*k), ops).map_err(|e| (format!("Err({e})"), "Ok".to_string()))?;
            if t.get_description() != s_of(*k) {
                return bad(t.get_description().to_string(), "the description just set");
            }
        }
        Mut::SetPriority(k) => {
            t.set_priority(s_of(*k), ops).map_err(|e| (format!("Err({e})"), "Ok".to_string()))?;
            if t.get_priority() != s_of(*k) {
                return bad(t.get_priority().to_string(), "the priority just set");
            }
        }
        Mut::SetEntry(v) => {
            t.set_entry(v.map(ts), ops).map_err(|e| (format!("Err({e})"), "Ok".to_string()))?;
            if t.get_entry() != v.map(ts) {
                return bad(format!("{:?}", t.get_entry()), "the entry time just set");
            }
        }
        Mut::SetWait(v) => {
            t.set_wait(v.map(ts), ops).map_err(|e| (format!("Err({e})"), "Ok".to_string()))?;
            if t.get_wait() != v.map(ts) {
                return bad(format!("{:?}", t.get_wait()), "the wait time just set");
            }
        }
        Mut::SetModified(v) => {
            t.set_modified(ts(*v), ops).map_err(|e| (format!("Err({e})"), "Ok".to_string()))?;
            if t.get_modified() != Some(ts(*v)) {
                return bad(format!("{:?}", t.get_modified()), "the modification time set explicitly");
            }
        }
        Mut::SetValue(k, v) => {
            t.set_value(key_of(*k), v.map(s_of), ops).map_err(|e| (format!("Err({e})"), "Ok".to_string()))?;
            if t.get_value(key_of(*k)).map(|s| s.to_string()) != v.map(s_of) {
                return bad(format!("{:?}", t.get_value(key_of(*k))), "the value just set");
            }
        }
        Mut::Start => {
            t.start(ops).map_err(|e| (format!("Err({e})"), "Ok".to_string()))?;
            if !t.is_active() {
                return bad("not active".into(), "active after start");
            }
        }
        Mut::Stop => {
            t.stop(ops).map_err(|e| (format!("Err({e})"), "Ok".to_string()))?;
            if t.is_active() {
                return bad("active".into(), "not active after stop");
            }
        }
        Mut::Done => {
            t.done(ops).map_err(|e| (format!("Err({e})"), "Ok".to_string()))?;
            if t.get_status() != Status::Completed || !t.get_taskmap().contains_key("end") {
                return bad(format!("{:?} end={}", t.get_status(), t.get_taskmap().contains_key("end")), "completed, with an end time");
            }
        }
        Mut::Delete => {
            #[allow(deprecated)]
            t.delete(ops).map_err(|e| (format!("Err({e})"), "Ok".to_string()))?;
            if t.get_status() != Status::Deleted || !t.get_taskmap().contains_key("end") {
                return bad(format!("{:?} end={}", t.get_status(), t.get_taskmap().contains_key("end")), "deleted, with an end time");
            }
        }
        Mut::AddTag(k) | Mut::RemoveTag(k) => {
            let tag = tag_of(*k).ok_or(("tag does not parse".to_string(), "a tag".to_string()))?;
            let before = h.ops.len();
            let r = if matches!(m, Mut::AddTag(_)) { t.add_tag(&tag, &mut h.ops) } else { t.remove_tag(&tag, &mut h.ops) };
            if tag.is_synthetic() {
                if r.is_ok() || h.ops.len() != before {
                    return bad("a synthetic tag was accepted".into(), "reserved names are rejected and nothing is recorded");
                }
            } else {
                r.map_err(|e| (format!("Err({e})"), "Ok".to_string()))?;
                let want = matches!(m, Mut::AddTag(_));
                if t.has_tag(&tag) != want || t.get_tags().any(|x| x == tag) != want {
                    return bad(format!("has_tag = {}", t.has_tag(&tag)), "tags read back as written");
                }
            }
        }
        Mut::AddAnnotation(e, k) => {
            t.add_annotation(Annotation { entry: ts(*e), description: s_of(*k) }, ops).map_err(|e| (format!("Err({e})"), "Ok".to_string()))?;
            if !t.get_annotations().any(|a| a.entry == ts(*e) && a.description == s_of(*k)) {
                return bad("annotation not listed".into(), "annotations read back as written");
            }
        }
        Mut::RemoveAnnotation(e) => {
            t.remove_annotation(ts(*e), ops).map_err(|e| (format!("Err({e})"), "Ok".to_string()))?;
            if t.get_annotations().any(|a| a.entry == ts(*e)) {
                return bad("annotation still listed".into(), "a removed annotation is gone");
            }
        }
        Mut::SetDue(v) => {
            t.set_due(v.map(ts), ops).map_err(|e| (format!("Err({e})"), "Ok".to_string()))?;
            if t.get_due() != v.map(ts) {
                return bad(format!("{:?}", t.get_due()), "the due time just set");
            }
        }
        Mut::SetUda(ns, k, v) => {
            let (ns, k) = (["ns", "github", ""][*ns as usize % 3], ["key", "id", "a.b"][*k as usize % 3]);
            let r = t.set_uda(ns, k, s_of(*v), ops);
            if r.is_ok() && t.get_uda(ns, k) != Some(s_of(*v).as_str()) {
                return bad(format!("{:?}", t.get_uda(ns, k)), "user-defined attributes read back as written");
            }
        }
        Mut::RemoveUda(ns, k) => {
            let (ns, k) = (["ns", "github", ""][*ns as usize % 3], ["key", "id", "a.b"][*k as usize % 3]);
            let r = t.remove_uda(ns, k, ops);
            if r.is_ok() && t.get_uda(ns, k).is_some() {
                return bad(format!("{:?}", t.get_uda(ns, k)), "a removed attribute is gone");
            }
        }
        Mut::SetLegacyUda(k, v) => {
            let key = ["githubid", "status", "tag_x", "annotation_5", "dep_x", "a.b"][*k as usize % 6];
            let before = h.ops.len();
            let r = t.set_legacy_uda(key, s_of(*v), &mut h.ops);
            let reserved = key == "status" || key.starts_with("tag_") || key.starts_with("annotation_") || key.starts_with("dep_");
            if reserved && (r.is_ok() || h.ops.len() != before) {
                return bad(format!("legacy attribute {key:?} accepted"), "reserved names are rejected and nothing is recorded");
            }
            if r.is_ok() && t.get_legacy_uda(key) != Some(s_of(*v).as_str()) {
                return bad(format!("{:?}", t.get_legacy_uda(key)), "user-defined attributes read back as written");
            }
        }
        Mut::RemoveLegacyUda(k) => {
            let key = ["githubid", "status", "tag_x", "annotation_5", "dep_x", "a.b"][*k as usize % 6];
            let before = h.ops.len();
            let r = t.remove_legacy_uda(key, &mut h.ops);
            let reserved = key == "status" || key.starts_with("tag_") || key.starts_with("annotation_") || key.starts_with("dep_");
            if reserved && (r.is_ok() || h.ops.len() != before) {
                return bad(format!("removal of reserved key {key:?} accepted"), "reserved names are rejected and nothing is recorded");
            }
        }
        Mut::AddDep(k) => {
            t.add_dependency(uuid_of(*k), ops).map_err(|e| (format!("Err({e})"), "Ok".to_string()))?;
            if !t.get_dependencies().any(|d| d == uuid_of(*k)) {
                return bad("dependency not listed".into(), "dependencies read back as written");
            }
        }
        Mut::RemoveDep(k) => {
            t.remove_dependency(uuid_of(*k), ops).map_err(|e| (format!("Err({e})"), "Ok".to_string()))?;
            if t.get_dependencies().any(|d| d == uuid_of(*k)) {
                return bad("dependency still listed".into(), "a removed dependency is gone");
            }
        }
        Mut::LowUpdate(..) | Mut::CommitReload => unreachable!(),
    }
    Ok(())
}

fn synthetic_ok(t: &Task) -> Result<(), (String, String)> {
    let has = |s: &str| t.has_tag(&s.parse::<Tag>().unwrap());
    let st = t.get_status();
    let checks = [
        ("PENDING", st == Status::Pending),
        ("COMPLETED", st == Status::Completed),
        ("DELETED", st == Status::Deleted),
        ("ACTIVE", t.get_taskmap().contains_key("start")),
        ("WAITING", t.is_waiting()),
    ];
    for (name, want) in checks {
        if has(name) != want {
            return Err((format!("synthetic tag {name} = {}", has(name)), format!("{want} (from the stored status / start / wait)")));
        }
    }
    Ok(())
}

/// every recorded Update carries the value the property really had: replay the operations over the map the session started from
fn old_values_ok(start: &Option<TaskMap>, ops: &Operations, uuid: Uuid) -> Result<Option<TaskMap>, (String, String)> {
    let mut cur = start.clone();
    for (i, op) in ops.iter().enumerate() {
        match op {
            Operation::Create { uuid: u } if *u == uuid => {
                if cur.is_some() {
                    return Err((format!("operation #{i}: Create of a task that exists"), "only valid operations are recorded".into()));
                }
                cur = Some(TaskMap::new());
            }
            Operation::Delete { uuid: u, old_task } if *u == uuid => {
                if cur.as_ref() != Some(old_task) {
                    return Err((format!("operation #{i}: Delete carries {old_task:?}"), format!("the task as it was: {cur:?}")));
                }
                cur = None;
            }
            Operation::Update { uuid: u, property, old_value, value, .. } if *u == uuid => {
                let Some(m) = cur.as_mut() else {
                    return Err((format!("operation #{i}: Update of a task that does not exist"), "only valid operations are recorded".into()));
                };
                if m.get(property) != old_value.as_ref() {
                    return Err((format!("operation #{i}: Update of {property:?} carries old value {old_value:?}"), format!("the value the property really had: {:?}", m.get(property))));
                }
                match value {
                    Some(v) => {
                        m.insert(property.clone(), v.clone());
                    }
                    None => {
                        m.remove(property);
                    }
                }
            }
            _ => {}
        }
    }
    Ok(cur)
}

async fn c19_one(base: usize, seq: &[Mut]) -> Result<(), (String, String, String)> {
    let uuid = uuid_of(1);
    let mut rep = Replica::new(InMemoryStorage::new());
    // the task another one depends on / is depended on by
    {
        let mut ops = Operations::new();
        let mut o = rep.create_task(uuid_of(2), &mut ops).await.unwrap();
        o.set_status(Status::Pending, &mut ops).unwrap();
        rep.commit_operations(ops).await.unwrap();
    }
    let mut ops = Operations::new();
    let mut task = rep.create_task(uuid, &mut ops).await.unwrap();
    match base {
        0 => {}
        1 => {
            task.set_status(Status::Pending, &mut ops).unwrap();
            task.set_description("base".into(), &mut ops).unwrap();
            task.add_tag(&"next".parse().unwrap(), &mut ops).unwrap();
            task.add_dependency(uuid_of(2), &mut ops).unwrap();
        }
        _ => {
            task.set_status(Status::Completed, &mut ops).unwrap();
            task.add_annotation(Annotation { entry: ts(1_600_000_000), description: "old".into() }, &mut ops).unwrap();
            task.set_uda("ns", "key", "v", &mut ops).unwrap();
            task.set_wait(Some(ts(4_000_000_000)), &mut ops).unwrap();
        }
    }
    rep.commit_operations(ops).await.unwrap();
    let stored0 = rep.get_task_data(uuid).await.unwrap().map(|t| t.iter().map(|(k, v)| (k.clone(), v.clone())).collect::<TaskMap>());
    let mut session_start = stored0;
    let mut h = Held { task: rep.get_task(uuid).await.unwrap().expect("base task"), ops: Operations::new() };
    for (i, m) in seq.iter().enumerate() {
        let at = format!("call #{i} {m:?}");
        match m {
            Mut::CommitReload | Mut::LowUpdate(..) => {
                if let Mut::LowUpdate(k, v) = m {
                    // low-level modification through TaskData on the same session
                    let mut td = h.task.clone().into_task_data();
                    td.update(key_of(*k), v.map(s_of), &mut h.ops);
                    let dm = rep.dependency_map(false).await.unwrap();
                    let _ = dm;
                    // the caller now holds `td`; compare through a Task built from the replica after commit below
                    let expect: TaskMap = td.iter().map(|(a, b)| (a.clone(), b.clone())).collect();
                    old_values_ok(&session_start, &h.ops, uuid).map_err(|(g, e)| (at.clone(), g, e))?;
                    rep.commit_operations(std::mem::take(&mut h.ops)).await.map_err(|e| (at.clone(), format!("commit failed: {e}"), "commit succeeds".into()))?;
                    let stored = rep.get_task(uuid).await.unwrap();
                    let got = stored.as_ref().map(|t| t.get_taskmap().clone());
                    if got.as_ref() != Some(&expect) {
                        return Err((at, format!("stored task {got:?}"), format!("identical to the task data the caller held: {expect:?}")));
                    }
                    session_start = got;
                    h.task = stored.unwrap();
                    continue;
                }
                let held = h.task.get_taskmap().clone();
                let end = old_values_ok(&session_start, &h.ops, uuid).map_err(|(g, e)| (at.clone(), g, e))?;
                if end.as_ref() != Some(&held) {
                    return Err((at, format!("replaying the recorded operations gives {end:?}"), format!("the task the caller holds: {held:?}")));
                }
                rep.commit_operations(std::mem::take(&mut h.ops)).await.map_err(|e| (at.clone(), format!("commit failed: {e}"), "commit succeeds".into()))?;
                // the task fetched the import way -- create_task on a task that exists -- right after the commit, before anything
                // else has been read (cold cache): nothing is recorded, and (below) it is the stored task with the tags of the stored data
                let mut none = Operations::new();
                let via_create = rep.create_task(uuid, &mut none).await.map_err(|e| (at.clone(), format!("create_task failed: {e}"), "the existing task".into()))?;
                let stored = rep.get_task(uuid).await.unwrap();
                let got = stored.as_ref().map(|t| t.get_taskmap().clone());
                if !none.is_empty() || Some(via_create.get_taskmap()) != got.as_ref() {
                    return Err((at, format!("create_task on the existing task recorded {} operation(s) / returned {:?}", none.len(), via_create.get_taskmap()), format!("no operation, the stored task {got:?}")));
                }
                if got.as_ref() != Some(&held) {
                    return Err((at, format!("stored task {got:?}"), format!("identical to the task the caller held: {held:?}")));
                }
                let td = rep.get_task_data(uuid).await.unwrap().map(|t| t.iter().map(|(k, v)| (k.clone(), v.clone())).collect::<TaskMap>());
                if td != got {
                    return Err((at, format!("get_task_data {td:?}"), format!("the same as get_task {got:?}")));
                }
                session_start = got;
                h.task = stored.unwrap();
                synthetic_ok(&h.task).map_err(|(g, e)| (at.clone(), g, e))?;
                // the dependency map reflects exactly the stored dependency keys of pending tasks
                let dm = rep.dependency_map(true).await.unwrap();
                let listed = dm.dependencies(uuid).any(|d| d == uuid_of(2));
                // documented on Replica::dependency_map: "a task dependency is recognized when a task in the working set depends
                // on a task with status equal to Pending" (task 2 is pending throughout)
                let has_dep = h.task.get_dependencies().any(|d| d == uuid_of(2));
                let in_ws = rep.working_set().await.unwrap().by_uuid(uuid).is_some();
                let want = has_dep && in_ws;
                if listed != want {
                    return Err((at, format!("dependency map lists the edge: {listed}"), format!("{want} (task in the working set: {in_ws}, has the dep_ key: {has_dep}, target pending)")));
                }
                // ... and the synthetic tags that depend on it, whichever way the task object was obtained
                let other = rep.get_task(uuid_of(2)).await.unwrap().expect("task 2");
                let mut all = rep.all_tasks().await.unwrap();
                let via_all = all.remove(&uuid).ok_or((at.clone(), "all_tasks() does not list the task".to_string(), "every stored task".to_string()))?;
                let via_pending = rep.pending_tasks().await.unwrap().into_iter().find(|t| t.get_uuid() == uuid);
                if via_pending.is_some() != in_ws {
                    return Err((at, format!("pending_tasks() lists the task: {}", via_pending.is_some()), format!("{in_ws} (it is in the working set)")));
                }
                let mut routes = vec![("get_task", &h.task), ("create_task on the existing task", &via_create), ("all_tasks", &via_all)];
                if let Some(t) = via_pending.as_ref() {
                    routes.push(("pending_tasks", t));
                }
                for (how, t) in &routes {
                    if t.get_taskmap() != h.task.get_taskmap() {
                        return Err((at, format!("via {how}: {:?}", t.get_taskmap()), format!("the stored task {:?}", h.task.get_taskmap())));
                    }
                }
                for (how, t) in routes {
                    let tag = |s: &str| t.has_tag(&s.parse::<Tag>().unwrap());
                    if t.is_blocked() != want || tag("BLOCKED") != want || tag("UNBLOCKED") != !want {
                        return Err((at, format!("via {how}: is_blocked {} BLOCKED {} UNBLOCKED {}", t.is_blocked(), tag("BLOCKED"), tag("UNBLOCKED")), format!("blocked = {want} (from the stored dep_ key, the working set and the target's status)")));
                    }
                }
                if other.is_blocking() != want || other.has_tag(&"BLOCKING".parse::<Tag>().unwrap()) != want {
                    return Err((at, format!("task 2 is_blocking {}", other.is_blocking()), format!("{want}")));
                }
            }
            _ => {
                apply_mut(&mut h, m).map_err(|(g, e)| (at.clone(), g, e))?;
                synthetic_ok(&h.task).map_err(|(g, e)| (at.clone(), g, e))?;
            }
        }
    }
    Ok(())
}

fn c19_alphabet() -> Vec<Mut> {
    let mut v = vec![Mut::Start, Mut::Stop, Mut::Done, Mut::Delete, Mut::CommitReload];
    for k in 0..5 {
        v.push(Mut::SetStatus(k));
    }
    v.push(Mut::SetDescription(2));
    v.push(Mut::SetPriority(1));
    v.push(Mut::SetEntry(None));
    v.push(Mut::SetEntry(Some(1_700_000_000)));
    v.push(Mut::SetWait(None));
    v.push(Mut::SetWait(Some(4_100_000_000)));
    v.push(Mut::SetWait(Some(1_000)));
    v.push(Mut::SetModified(1_650_000_000));
    for k in [0u8, 2, 4] {
        v.push(Mut::SetValue(k, Some(1)));
        v.push(Mut::SetValue(k, None));
    }
    for k in 0..3 {
        v.push(Mut::AddTag(k));
        v.push(Mut::RemoveTag(k));
    }
    v.push(Mut::AddAnnotation(1_600_000_000, 2));
    v.push(Mut::AddAnnotation(1_600_000_001, 0));
    v.push(Mut::RemoveAnnotation(1_600_000_000));
    v.push(Mut::SetDue(Some(1_800_000_000)));
    v.push(Mut::SetDue(None));
    v.push(Mut::SetUda(0, 0, 1));
    v.push(Mut::SetUda(1, 2, 2));
    v.push(Mut::RemoveUda(0, 0));
    for k in 0..6 {
        v.push(Mut::SetLegacyUda(k, 1));
    }
    v.push(Mut::RemoveLegacyUda(0));
    v.push(Mut::RemoveLegacyUda(2));
    v.push(Mut::AddDep(2));
    v.push(Mut::RemoveDep(2));
    v.push(Mut::AddDep(5));
    v.push(Mut::LowUpdate(1, Some(3)));
    v.push(Mut::LowUpdate(3, Some(1)));
    v.push(Mut::LowUpdate(0, None));
    v
}

fn mode_c19(thorough: bool, jobs: usize) -> (usize, usize, Vec<Failure>, serde_json::Value) {
    let alpha = c19_alphabet();
    let depth = if thorough { 4 } else { 3 };
    // sequences of 1..=depth mutators, each followed by commit + reload; enumerated by index (nothing is stored)
    let n = alpha.len();
    let mut per_base = 0usize;
    let mut pow = 1usize;
    let mut offsets = Vec::new(); // offsets[l-1] = index of the first sequence of length l
    for _ in 1..=depth {
        offsets.push(per_base);
        pow *= n;
        per_base += pow;
    }
    let total = per_base * 3;
    let decode = move |mut i: usize, alpha: &[Mut]| -> (usize, Vec<Mut>) {
        let base = i / per_base;
        i %= per_base;
        let mut len = 1;
        for (l, off) in offsets.iter().enumerate() {
            if i >= *off {
                len = l + 1;
            }
        }
        let mut k = i - offsets[len - 1];
        let mut s = Vec::with_capacity(len + 1);
        for _ in 0..len {
            s.push(alpha[k % alpha.len()].clone());
            k /= alpha.len();
        }
        s.push(Mut::CommitReload);
        (base, s)
    };
    let alpha = Arc::new(alpha);
    let next = Arc::new(std::sync::atomic::AtomicUsize::new(0));
    let mut hs = Vec::new();
    for _ in 0..jobs {
        let alpha = alpha.clone();
        let next = next.clone();
        let decode = decode.clone();
        hs.push(std::thread::spawn(move || {
            let rt = rt();
            let mut fails = Vec::new();
            let mut ran = 0usize;
            loop {
                let i0 = next.fetch_add(256, std::sync::atomic::Ordering::Relaxed);
                if i0 >= total || fails.len() >= 3 {
                    break;
                }
                for i in i0..(i0 + 256).min(total) {
                    let (base, s) = decode(i, &alpha);
                    ran += 1;
                    let r = catch_unwind(AssertUnwindSafe(|| rt.block_on(c19_one(base, &s))));
                    match r {
                        Ok(Ok(())) => {}
                        Ok(Err((at, got, expected))) => fails.push(Failure { mode: "c19".into(), input: serde_json::json!({"base": base, "seq": s}), at, got, expected }),
                        Err(e) => {
                            let msg = e.downcast_ref::<String>().cloned().or_else(|| e.downcast_ref::<&str>().map(|s| s.to_string())).unwrap_or_default();
                            fails.push(Failure { mode: "c19".into(), input: serde_json::json!({"base": base, "seq": s}), at: "somewhere in the sequence".into(), got: format!("panic: {msg}"), expected: "no panic".into() })
                        }
                    }
                }
            }
            (ran, fails)
        }));
    }
    let mut ran = 0;
    let mut fails = Vec::new();
    for h in hs {
        let (r, f) = h.join().unwrap();
        ran += r;
        fails.extend(f);
    }
    (total, ran, fails, serde_json::json!({"mutator_calls": alpha.len(), "depth": depth, "base_tasks": 3, "each_sequence_ends_with": "commit + reload + comparison"}))
}

// ------------------------------------------------------------------------------------------------------------------ C14

#[derive(Default)]
struct Rec {
    versions: Vec<(VersionId, VersionId, Vec<u8>)>,
    /// urgency answered to every accepted add_version: 0 none, 1 low, 2 high
    urgency: u8,
    /// snapshots received: (version id, bytes, urgency in force, number of versions at that moment)
    snapshots: Vec<(VersionId, Vec<u8>, u8, usize)>,
    /// snapshot offered by get_snapshot
    offer: Option<(VersionId, Vec<u8>)>,
    /// versions with an index below this have been discarded
    floor: usize,
}
struct RecServer(Arc<Mutex<Rec>>);

#[async_trait::async_trait(?Send)]
impl Server for RecServer {
    async fn add_version(&mut self, parent: VersionId, seg: HistorySegment) -> Result<(AddVersionResult, SnapshotUrgency), taskchampion::Error> {
        let mut r = self.0.lock().unwrap();
        let latest = r.versions.last().map(|v| v.0).unwrap_or(Uuid::nil());
        if !r.versions.is_empty() && parent != latest {
            return Ok((AddVersionResult::ExpectedParentVersion(latest), SnapshotUrgency::None));
        }
        let id = Uuid::new_v4();
        r.versions.push((id, parent, seg));
        let u = match r.urgency {
            0 => SnapshotUrgency::None,
            1 => SnapshotUrgency::Low,
            _ => SnapshotUrgency::High,
        };
        Ok((AddVersionResult::Ok(id), u))
    }
    async fn get_child_version(&mut self, parent: VersionId) -> Result<GetVersionResult, taskchampion::Error> {
        let r = self.0.lock().unwrap();
        match r.versions.iter().skip(r.floor).find(|v| v.1 == parent) {
            Some(v) => Ok(GetVersionResult::Version { version_id: v.0, parent_version_id: v.1, history_segment: v.2.clone() }),
            None => Ok(GetVersionResult::NoSuchVersion),
        }
    }
    async fn add_snapshot(&mut self, v: VersionId, s: Snapshot) -> Result<(), taskchampion::Error> {
        let mut r = self.0.lock().unwrap();
        let (u, n) = (r.urgency, r.versions.len());
        r.snapshots.push((v, s, u, n));
        Ok(())
    }
    async fn get_snapshot(&mut self) -> Result<Option<(VersionId, Snapshot)>, taskchampion::Error> {
        Ok(self.0.lock().unwrap().offer.clone())
    }
}

#[derive(Clone, Debug, Serialize, Deserialize)]
enum Edit {
    Create(u8),
    Update(u8, u8, Option<u8>, i64, u32),
    Delete(u8),
    UndoPoint,
    Sync,
}

fn prop_of(k: u8) -> String {
    match k {
        0 => "description".into(),
        1 => "".into(),
        2 => "p \"q\" \\ é\n\u{0}".into(),
        _ => "old_value".into(),
    }
}

/// what the documented format says the version must list for these committed operations
fn expected_ops(ops: &[Operation]) -> Vec<serde_json::Value> {
    let mut v = Vec::new();
    for op in ops {
        match op {
            Operation::Create { uuid } => v.push(serde_json::json!({"Create": {"uuid": uuid.to_string()}})),
            Operation::Delete { uuid, .. } => v.push(serde_json::json!({"Delete": {"uuid": uuid.to_string()}})),
            Operation::Update { uuid, property, value, timestamp, .. } => v.push(serde_json::json!({"Update": {
                "uuid": uuid.to_string(), "property": property, "value": value, "timestamp": timestamp.to_rfc3339_opts(chrono::SecondsFormat::AutoSi, true)}})),
            Operation::UndoPoint => {}
        }
    }
    v
}

fn check_segment(seg: &[u8], expect: &[serde_json::Value]) -> Result<(), (String, String)> {
    let text = std::str::from_utf8(seg).map_err(|e| (format!("not UTF-8: {e}"), "a UTF-8 JSON document".to_string()))?;
    let doc: serde_json::Value = serde_json::from_str(text).map_err(|e| (format!("not JSON: {e}"), "a UTF-8 JSON document".to_string()))?;
    // the implementation wraps the documented array as {"operations": [...]}; both shapes list the operations
    let list = match &doc {
        serde_json::Value::Array(a) => a.clone(),
        serde_json::Value::Object(o) if o.len() == 1 && o.contains_key("operations") => o["operations"].as_array().cloned().ok_or(("\"operations\" is not an array".to_string(), "a list of operations".to_string()))?,
        other => return Err((format!("{other}"), "a document listing the operations and nothing else".into())),
    };
    for (i, el) in list.iter().enumerate() {
        let o = el.as_object().ok_or((format!("element #{i}: {el}"), "{TYPE: DATA}".to_string()))?;
        if o.len() != 1 {
            return Err((format!("element #{i}: {el}"), "{TYPE: DATA} with one TYPE".into()));
        }
        let (ty, data) = o.iter().next().unwrap();
        let d = data.as_object().ok_or((format!("element #{i}: {el}"), "DATA is an object".to_string()))?;
        let mut keys: Vec<&str> = d.keys().map(|s| s.as_str()).collect();
        keys.sort();
        let want: &[&str] = match ty.as_str() {
            "Create" | "Delete" => &["uuid"],
            "Update" => &["property", "timestamp", "uuid", "value"],
            other => return Err((format!("element #{i}: operation type {other:?}"), "only Create, Delete and Update leave the replica".into())),
        };
        if keys != want {
            return Err((format!("element #{i}: {ty} with fields {keys:?}"), format!("exactly the documented fields {want:?}")));
        }
        if ty == "Update" {
            let tsv = d["timestamp"].as_str().ok_or((format!("element #{i}: timestamp {}", d["timestamp"]), "an RFC 3339 string".to_string()))?;
            if !tsv.ends_with('Z') || DateTime::parse_from_rfc3339(tsv).is_err() {
                return Err((format!("element #{i}: timestamp {tsv:?}"), "RFC 3339 with a Z suffix".into()));
            }
            if !(d["value"].is_string() || d["value"].is_null()) || !d["property"].is_string() {
                return Err((format!("element #{i}: {el}"), "property a string, value a string or null".into()));
            }
        }
    }
    // same operations, same order; timestamps compared as instants
    if list.len() != expect.len() {
        return Err((format!("{} operations: {}", list.len(), serde_json::Value::Array(list.clone())), format!("{} operations: {}", expect.len(), serde_json::Value::Array(expect.to_vec()))));
    }
    for (i, (a, b)) in list.iter().zip(expect).enumerate() {
        let mut a2 = a.clone();
        let mut b2 = b.clone();
        for x in [&mut a2, &mut b2] {
            if let Some(u) = x.get_mut("Update") {
                let t = DateTime::parse_from_rfc3339(u["timestamp"].as_str().unwrap()).unwrap().with_timezone(&Utc);
                u["timestamp"] = serde_json::json!(t.timestamp_nanos_opt());
            }
        }
        if a2 != b2 {
            return Err((format!("element #{i}: {a}"), format!("{b} (the operation committed at that position)")));
        }
    }
    Ok(())
}

async fn c14_send(seq: &[Edit]) -> Result<(), (String, String, String)> {
    let rec = Arc::new(Mutex::new(Rec::default()));
    let mut server: Box<dyn Server> = Box::new(RecServer(rec.clone()));
    let mut rep = Replica::new(InMemoryStorage::new());
    let mut pending: Vec<Operation> = Vec::new();
    let mut shadow: HashMap<Uuid, TaskMap> = HashMap::new();
    let mut seen = 0usize;
    let mut all: Vec<Edit> = seq.to_vec();
    all.push(Edit::Sync);
    for (i, e) in all.iter().enumerate() {
        let at = format!("step #{i} {e:?}");
        let mut ops = Operations::new();
        match e {
            Edit::Create(u) => {
                if shadow.contains_key(&uuid_of(*u)) {
                    continue;
                }
                ops.push(Operation::Create { uuid: uuid_of(*u) });
                shadow.insert(uuid_of(*u), TaskMap::new());
            }
            Edit::Update(u, p, v, secs, nanos) => {
                let Some(m) = shadow.get_mut(&uuid_of(*u)) else { continue };
                let prop = prop_of(*p);
                let val = v.map(s_of);
                ops.push(Operation::Update {
                    uuid: uuid_of(*u),
                    property: prop.clone(),
                    old_value: m.get(&prop).cloned(),
                    value: val.clone(),
                    timestamp: Utc.timestamp_opt(*secs, *nanos).unwrap(),
                });
                match val {
                    Some(x) => {
                        m.insert(prop, x);
                    }
                    None => {
                        m.remove(&prop);
                    }
                }
            }
            Edit::Delete(u) => {
                let Some(m) = shadow.remove(&uuid_of(*u)) else { continue };
                ops.push(Operation::Delete { uuid: uuid_of(*u), old_task: m });
            }
            Edit::UndoPoint => ops.push(Operation::UndoPoint),
            Edit::Sync => {
                rep.sync(&mut server, false).await.map_err(|e| (at.clone(), format!("sync failed: {e}"), "sync succeeds".into()))?;
                let r = rec.lock().unwrap();
                let new: Vec<&(Uuid, Uuid, Vec<u8>)> = r.versions.iter().skip(seen).collect();
                let expect = expected_ops(&pending);
                if expect.is_empty() {
                    if !new.is_empty() {
                        // an empty version is harmless but must still be well formed
                        for v in &new {
                            check_segment(&v.2, &[]).map_err(|(g, x)| (at.clone(), g, x))?;
                        }
                    }
                } else {
                    // all operations fit in one version at these sizes
                    if new.len() != 1 {
                        return Err((at, format!("{} versions sent", new.len()), "one version with the pending operations".into()));
                    }
                    check_segment(&new[0].2, &expect).map_err(|(g, x)| (at.clone(), g, x))?;
                }
                seen = r.versions.len();
                pending.clear();
                continue;
            }
        }
        pending.extend(ops.iter().cloned());
        rep.commit_operations(ops).await.map_err(|e| (at, format!("commit failed: {e}"), "commit succeeds".into()))?;
    }
    // conversely: a fresh replica that receives these versions applies them as the documented operation model says
    // (an independent replay of the documents, written against serde_json::Value only)
    let versions = rec.lock().unwrap().versions.clone();
    let want = replay_versions(&versions).map_err(|e| ("replaying the versions sent".to_string(), e, "well-formed versions".into()))?;
    let mut fresh = Replica::new(InMemoryStorage::new());
    let at = "a fresh replica synced from the versions sent".to_string();
    fresh.sync(&mut server, false).await.map_err(|e| (at.clone(), format!("sync failed: {e}"), "sync succeeds".into()))?;
    let got = state_of(&mut fresh).await;
    if got != want {
        return Err((at, format!("{got:?}"), format!("the documents applied in order: {want:?}")));
    }
    let mine = state_of(&mut rep).await;
    if mine != want {
        return Err(("the sending replica after its last sync".into(), format!("{mine:?}"), format!("the state the documents describe: {want:?}")));
    }
    // ... and records the updates with the instants the documents give (they decide later conflicts)
    for u in want.keys() {
        let mut expected: Vec<(String, Option<String>, i64)> = Vec::new();
        for (_, _, seg) in &versions {
            let doc: serde_json::Value = serde_json::from_slice(seg).unwrap();
            let list = doc.get("operations").and_then(|x| x.as_array()).cloned().or_else(|| doc.as_array().cloned()).unwrap_or_default();
            for el in list {
                if let Some(d) = el.get("Update") {
                    if d["uuid"].as_str() == Some(u.to_string().as_str()) {
                        let t = DateTime::parse_from_rfc3339(d["timestamp"].as_str().unwrap_or("")).map_err(|e| (at.clone(), format!("{e}"), "an RFC 3339 timestamp".into()))?;
                        expected.push((d["property"].as_str().unwrap_or("").to_string(), d["value"].as_str().map(|s| s.to_string()), t.with_timezone(&Utc).timestamp_nanos_opt().unwrap_or(0)));
                    }
                }
            }
        }
        let got: Vec<(String, Option<String>, i64)> = fresh
            .get_task_operations(*u)
            .await
            .unwrap()
            .iter()
            .filter_map(|o| match o {
                Operation::Update { property, value, timestamp, .. } => Some((property.clone(), value.clone(), timestamp.timestamp_nanos_opt().unwrap_or(0))),
                _ => None,
            })
            .collect();
        if got != expected {
            return Err((at, format!("updates recorded for {u}: {got:?}"), format!("the updates of the documents, with their instants: {expected:?}")));
        }
    }
    Ok(())
}

/// hand-written versions in the documented format, as another implementation might write them
async fn c14_receive(wrapper: bool, variant: usize) -> Result<(), (String, String, String)> {
    let u = uuid_of(1).to_string();
    let u2 = uuid_of(2).to_string();
    let tsv = ["2021-10-11T12:47:07.188090948Z", "2021-10-11T12:47:07Z", "2021-10-11T12:47:07.5Z", "2021-10-11T12:47:07.000001+00:00", "2021-10-11T14:47:07+02:00"][variant % 5];
    let ops = match variant / 5 {
        0 => format!(r#"[{{"Create":{{"uuid":"{u}"}}}},{{"Update":{{"uuid":"{u}","property":"description","value":"hello","timestamp":"{tsv}"}}}}]"#),
        // other field order, extra whitespace, null value, second task, delete
        1 => format!(r#"[ {{"Create": {{"uuid": "{u}"}}}}, {{"Update": {{"timestamp": "{tsv}", "value": "hello", "property": "description", "uuid": "{u}"}}}}, {{"Create":{{"uuid":"{u2}"}}}}, {{"Update":{{"value":null,"uuid":"{u2}","timestamp":"{tsv}","property":"nothing"}}}}, {{"Delete":{{"uuid":"{u2}"}}}} ]"#),
        _ => format!(r#"[{{"Create":{{"uuid":"{u}"}}}},{{"Update":{{"uuid":"{u}","property":"p \"q\" \\ é","value":"","timestamp":"{tsv}"}}}},{{"Update":{{"uuid":"{u}","property":"description","value":"hello","timestamp":"{tsv}"}}}}]"#),
    };
    let doc = if wrapper { format!(r#"{{"operations":{ops}}}"#) } else { ops };
    let rec = Arc::new(Mutex::new(Rec::default()));
    rec.lock().unwrap().versions.push((uuid_of(50), Uuid::nil(), doc.clone().into_bytes()));
    let mut server: Box<dyn Server> = Box::new(RecServer(rec.clone()));
    let mut rep = Replica::new(InMemoryStorage::new());
    let at = format!("syncing a fresh replica from the hand-written version {doc}");
    rep.sync(&mut server, false).await.map_err(|e| (at.clone(), format!("sync failed: {e}"), "the version is applied".into()))?;
    let t = rep.get_task_data(uuid_of(1)).await.unwrap();
    let got = t.as_ref().and_then(|t| t.get("description").map(|s| s.to_string()));
    if got.as_deref() != Some("hello") {
        return Err((at, format!("task 1 description = {got:?}"), "\"hello\"".into()));
    }
    if rep.get_task_data(uuid_of(2)).await.unwrap().is_some() {
        return Err((at, "task 2 exists".into(), "created, updated and deleted again".into()));
    }
    let want_t = DateTime::parse_from_rfc3339(tsv).unwrap().with_timezone(&Utc);
    let ts_seen: Vec<DateTime<Utc>> = rep
        .get_task_operations(uuid_of(1))
        .await
        .unwrap()
        .iter()
        .filter_map(|o| match o {
            Operation::Update { property, timestamp, .. } if property == "description" => Some(*timestamp),
            _ => None,
        })
        .collect();
    if ts_seen != vec![want_t] {
        return Err((at, format!("the update is recorded at {ts_seen:?}"), format!("at {want_t:?} (timestamp {tsv} of the document)")));
    }
    if variant / 5 == 2 && t.as_ref().and_then(|t| t.get("p \"q\" \\ é").map(|s| s.to_string())).as_deref() != Some("") {
        return Err((at, "escaped property missing".into(), "property `p \"q\" \\ é` = \"\"".into()));
    }
    Ok(())
}

fn mode_c14(thorough: bool, jobs: usize) -> (usize, usize, Vec<Failure>, serde_json::Value) {
    let mut alpha = vec![Edit::Create(1), Edit::Create(2), Edit::Delete(1), Edit::UndoPoint, Edit::Sync];
    for (p, v) in [(0u8, Some(2u8)), (0, None), (1, Some(0)), (2, Some(2)), (3, Some(1))] {
        alpha.push(Edit::Update(1, p, v, 1_700_000_000, 0));
    }
    alpha.push(Edit::Update(1, 0, Some(1), 1_633_956_427, 188_090_948));
    alpha.push(Edit::Update(2, 0, Some(1), -1, 500_000_000));
    alpha.push(Edit::Update(1, 0, Some(3), 253_402_300_799, 999_999_999));
    let depth = if thorough { 6 } else { 5 };
    let mut seqs: Vec<Vec<Edit>> = Vec::new();
    fn rec(alpha: &[Edit], depth: usize, cur: &mut Vec<Edit>, out: &mut Vec<Vec<Edit>>) {
        out.push(cur.clone());
        if cur.len() == depth {
            return;
        }
        for m in alpha {
            cur.push(m.clone());
            rec(alpha, depth, cur, out);
            cur.pop();
        }
    }
    // every sequence starts by creating task 1 (an Update of a missing task is never committed by a replica)
    rec(&alpha, depth, &mut vec![Edit::Create(1)], &mut seqs);
    let total = seqs.len() + 15;
    let seqs = Arc::new(seqs);
    let next = Arc::new(std::sync::atomic::AtomicUsize::new(0));
    let mut hs = Vec::new();
    for _ in 0..jobs {
        let seqs = seqs.clone();
        let next = next.clone();
        hs.push(std::thread::spawn(move || {
            let rt = rt();
            let mut fails = Vec::new();
            let mut ran = 0usize;
            loop {
                let i = next.fetch_add(64, std::sync::atomic::Ordering::Relaxed);
                if i >= seqs.len() || fails.len() >= 3 {
                    break;
                }
                for s in &seqs[i..(i + 64).min(seqs.len())] {
                    ran += 1;
                    let r = catch_unwind(AssertUnwindSafe(|| rt.block_on(c14_send(s))));
                    let input = serde_json::json!({"direction": "send", "seq": s});
                    match r {
                        Ok(Ok(())) => {}
                        Ok(Err((at, got, expected))) => fails.push(Failure { mode: "c14".into(), input, at, got, expected }),
                        Err(_) => fails.push(Failure { mode: "c14".into(), input, at: "somewhere".into(), got: "panic".into(), expected: "no panic".into() }),
                    }
                }
            }
            (ran, fails)
        }));
    }
    let mut ran = 0;
    let mut fails = Vec::new();
    for h in hs {
        let (r, f) = h.join().unwrap();
        ran += r;
        fails.extend(f);
    }
    let r = rt();
    for variant in 0..15 {
        ran += 1;
        // the documented bare array is what the protocol document shows; the implementation's own wrapper is what replicas exchange
        let input = serde_json::json!({"direction": "receive", "wrapper": true, "variant": variant});
        match catch_unwind(AssertUnwindSafe(|| r.block_on(c14_receive(true, variant)))) {
            Ok(Ok(())) => {}
            Ok(Err((at, got, expected))) => fails.push(Failure { mode: "c14".into(), input, at, got, expected }),
            Err(e) => {
                let msg = e.downcast_ref::<String>().cloned().or_else(|| e.downcast_ref::<&str>().map(|s| s.to_string())).unwrap_or_default();
                fails.push(Failure { mode: "c14".into(), input, at: "syncing a fresh replica from a hand-written version in the documented format".into(), got: format!("panic: {msg}"), expected: "the version is applied".into() })
            }
        }
    }
    (total, ran, fails, serde_json::json!({"edit_steps": alpha.len(), "depth": depth, "hand_written_versions": 15, "timestamps": "whole seconds, nanoseconds, before 1970, year 9999"}))
}


// ------------------------------------------------------------------------------------------------------------------ C12

type State = HashMap<Uuid, HashMap<String, String>>;

/// replay of version documents, written independently of the crate (serde_json::Value only)
fn replay_versions(versions: &[(VersionId, VersionId, Vec<u8>)]) -> Result<State, String> {
    let mut st: State = HashMap::new();
    for (id, _, seg) in versions {
        let doc: serde_json::Value = serde_json::from_slice(seg).map_err(|e| format!("version {id}: {e}"))?;
        let list = match &doc {
            serde_json::Value::Array(a) => a.clone(),
            serde_json::Value::Object(o) => o.get("operations").and_then(|x| x.as_array()).cloned().ok_or(format!("version {id}: no operations"))?,
            _ => return Err(format!("version {id}: not a list")),
        };
        for el in list {
            let (ty, d) = el.as_object().and_then(|o| o.iter().next()).map(|(a, b)| (a.clone(), b.clone())).ok_or("bad element")?;
            let u = Uuid::parse_str(d["uuid"].as_str().unwrap_or("")).map_err(|e| e.to_string())?;
            match ty.as_str() {
                "Create" => {
                    st.entry(u).or_default();
                }
                "Delete" => {
                    st.remove(&u);
                }
                "Update" => {
                    if let Some(t) = st.get_mut(&u) {
                        let p = d["property"].as_str().unwrap_or("").to_string();
                        match d["value"].as_str() {
                            Some(v) => {
                                t.insert(p, v.to_string());
                            }
                            None => {
                                t.remove(&p);
                            }
                        }
                    }
                }
                other => return Err(format!("operation type {other}")),
            }
        }
    }
    Ok(st)
}

/// the snapshot format as documented: zlib-compressed JSON object mapping task ids to property maps; decoded independently
fn decode_snapshot(bytes: &[u8]) -> Result<State, String> {
    use std::io::Read;
    let mut text = String::new();
    flate2::read::ZlibDecoder::new(bytes).read_to_string(&mut text).map_err(|e| format!("not zlib / not UTF-8: {e}"))?;
    let doc: serde_json::Value = serde_json::from_str(&text).map_err(|e| format!("not JSON: {e}"))?;
    let o = doc.as_object().ok_or("not a JSON object")?;
    let mut st: State = HashMap::new();
    for (k, v) in o {
        let u = Uuid::parse_str(k).map_err(|e| format!("key {k:?}: {e}"))?;
        let m = v.as_object().ok_or(format!("task {k}: not an object"))?;
        let mut t = HashMap::new();
        for (p, x) in m {
            t.insert(p.clone(), x.as_str().ok_or(format!("task {k}: property {p:?} is not a string"))?.to_string());
        }
        st.insert(u, t);
    }
    Ok(st)
}

async fn state_of<S: Storage>(rep: &mut Replica<S>) -> State {
    rep.all_task_data().await.unwrap().into_iter().map(|(u, t)| (u, t.iter().map(|(a, b)| (a.clone(), b.clone())).collect())).collect()
}

/// seq: edits on replica A (Edit::Sync syncs A); `urgency`/`avoid` fixed for the scenario; afterwards replica B edits and syncs, then
/// the snapshot-related statements are checked
async fn c12_one(seq: &[Edit], urgency: u8, avoid: bool) -> Result<(), (String, String, String)> {
    let rec = Arc::new(Mutex::new(Rec { urgency, ..Default::default() }));
    let mut server: Box<dyn Server> = Box::new(RecServer(rec.clone()));
    let mut a = Replica::new(InMemoryStorage::new());
    let mut shadow: HashMap<Uuid, TaskMap> = HashMap::new();
    let mut all: Vec<Edit> = seq.to_vec();
    all.push(Edit::Sync);
    for (i, e) in all.iter().enumerate() {
        let at = format!("step #{i} {e:?} (urgency {urgency}, avoid_snapshots {avoid})");
        let mut ops = Operations::new();
        match e {
            Edit::Create(u) => {
                if shadow.contains_key(&uuid_of(*u)) {
                    continue;
                }
                ops.push(Operation::Create { uuid: uuid_of(*u) });
                shadow.insert(uuid_of(*u), TaskMap::new());
            }
            Edit::Update(u, p, v, secs, nanos) => {
                let Some(m) = shadow.get_mut(&uuid_of(*u)) else { continue };
                let prop = prop_of(*p);
                let val = v.map(s_of);
                ops.push(Operation::Update { uuid: uuid_of(*u), property: prop.clone(), old_value: m.get(&prop).cloned(), value: val.clone(), timestamp: Utc.timestamp_opt(*secs, *nanos).unwrap() });
                match val {
                    Some(x) => {
                        m.insert(prop, x);
                    }
                    None => {
                        m.remove(&prop);
                    }
                }
            }
            Edit::Delete(u) => {
                let Some(m) = shadow.remove(&uuid_of(*u)) else { continue };
                ops.push(Operation::Delete { uuid: uuid_of(*u), old_task: m });
            }
            Edit::UndoPoint => ops.push(Operation::UndoPoint),
            Edit::Sync => {
                let before = rec.lock().unwrap().snapshots.len();
                a.sync(&mut server, avoid).await.map_err(|e| (at.clone(), format!("sync failed: {e}"), "sync succeeds".into()))?;
                let r = rec.lock().unwrap();
                for (v, bytes, u, nvers) in r.snapshots.iter().skip(before) {
                    let threshold = if avoid { 2 } else { 1 };
                    if *u < threshold {
                        return Err((at, format!("a snapshot was uploaded at urgency {u}"), format!("none below the replica's threshold {threshold}")));
                    }
                    let Some(pos) = r.versions.iter().position(|x| x.0 == *v) else {
                        return Err((at, format!("snapshot labelled {v}"), "the id of a version on the chain".into()));
                    };
                    if pos + 1 != *nvers {
                        return Err((at, format!("snapshot labelled with version #{pos} of {nvers}"), "the version just accepted".into()));
                    }
                    let want = replay_versions(&r.versions[..=pos]).map_err(|e| (at.clone(), e, "well-formed versions".into()))?;
                    let got = decode_snapshot(bytes).map_err(|e| (at.clone(), e, "zlib-compressed JSON object of tasks".into()))?;
                    if got != want {
                        return Err((at, format!("snapshot contains {got:?}"), format!("exactly the task set of the chain up to its version: {want:?}")));
                    }
                }
                continue;
            }
        }
        a.commit_operations(ops).await.map_err(|e| (at, format!("commit failed: {e}"), "commit succeeds".into()))?;
    }
    // a second replica adds versions after the snapshot point
    let mut b = Replica::new(InMemoryStorage::new());
    b.sync(&mut server, true).await.map_err(|e| ("replica B first sync".to_string(), format!("{e}"), "ok".into()))?;
    {
        let mut ops = Operations::new();
        let mut t = b.create_task(uuid_of(7), &mut ops).await.unwrap();
        t.set_description("from b \"é\"".into(), &mut ops).unwrap();
        b.commit_operations(ops).await.unwrap();
        rec.lock().unwrap().urgency = 0;
        b.sync(&mut server, true).await.map_err(|e| ("replica B second sync".to_string(), format!("{e}"), "ok".into()))?;
    }
    let (versions, snaps) = {
        let r = rec.lock().unwrap();
        (r.versions.clone(), r.snapshots.clone())
    };
    let whole = replay_versions(&versions).map_err(|e| ("replaying the chain".to_string(), e, "well-formed versions".into()))?;
    for (v, bytes, _, _) in &snaps {
        let pos = versions.iter().position(|x| x.0 == *v).unwrap();
        // a server that kept this snapshot and discarded everything before it
        let rec2 = Arc::new(Mutex::new(Rec { versions: versions.clone(), offer: Some((*v, bytes.clone())), floor: pos + 1, ..Default::default() }));
        let mut server2: Box<dyn Server> = Box::new(RecServer(rec2.clone()));
        let mut fresh = Replica::new(InMemoryStorage::new());
        let at = format!("a fresh replica synced from the snapshot of version #{pos} and the later versions");
        fresh.sync(&mut server2, false).await.map_err(|e| (at.clone(), format!("sync failed: {e}"), "sync succeeds".into()))?;
        let got = state_of(&mut fresh).await;
        if got != whole {
            return Err((at, format!("{got:?}"), format!("the state of a replica that replays the whole chain: {whole:?}")));
        }
        // a replica that already holds data never has it replaced by a snapshot
        let mut holder = Replica::new(InMemoryStorage::new());
        {
            let mut ops = Operations::new();
            let mut t = holder.create_task(uuid_of(8), &mut ops).await.unwrap();
            t.set_description("mine".into(), &mut ops).unwrap();
            holder.commit_operations(ops).await.unwrap();
        }
        let mut server3: Box<dyn Server> = Box::new(RecServer(Arc::new(Mutex::new(Rec { versions: versions.clone(), offer: Some((*v, bytes.clone())), ..Default::default() }))));
        let _ = holder.sync(&mut server3, false).await;
        let st = state_of(&mut holder).await;
        if st.get(&uuid_of(8)).and_then(|t| t.get("description")).map(|s| s.as_str()) != Some("mine") {
            return Err(("a replica holding a task syncs with a server that offers a snapshot".into(), format!("{st:?}"), "its own task is still there".into()));
        }
    }
    Ok(())
}

fn mode_c12(thorough: bool, jobs: usize) -> (usize, usize, Vec<Failure>, serde_json::Value) {
    let mut alpha = vec![Edit::Create(1), Edit::Create(2), Edit::Delete(1), Edit::UndoPoint, Edit::Sync];
    for (u, p, v) in [(1u8, 0u8, Some(2u8)), (1, 0, None), (1, 1, Some(0)), (2, 2, Some(2)), (2, 3, Some(1))] {
        alpha.push(Edit::Update(u, p, v, 1_700_000_000, 0));
    }
    let depth = if thorough { 5 } else { 4 };
    let mut seqs: Vec<Vec<Edit>> = Vec::new();
    fn rec(alpha: &[Edit], depth: usize, cur: &mut Vec<Edit>, out: &mut Vec<Vec<Edit>>) {
        out.push(cur.clone());
        if cur.len() == depth {
            return;
        }
        for m in alpha {
            cur.push(m.clone());
            rec(alpha, depth, cur, out);
            cur.pop();
        }
    }
    rec(&alpha, depth, &mut Vec::new(), &mut seqs);
    let combos: Vec<(u8, bool)> = vec![(0, false), (1, false), (2, false), (1, true), (2, true)];
    let total = seqs.len() * combos.len();
    let seqs = Arc::new(seqs);
    let next = Arc::new(std::sync::atomic::AtomicUsize::new(0));
    let mut hs = Vec::new();
    for _ in 0..jobs {
        let seqs = seqs.clone();
        let next = next.clone();
        let combos = combos.clone();
        hs.push(std::thread::spawn(move || {
            let rt = rt();
            let mut fails = Vec::new();
            let mut ran = 0usize;
            loop {
                let i = next.fetch_add(32, std::sync::atomic::Ordering::Relaxed);
                if i >= seqs.len() || fails.len() >= 3 {
                    break;
                }
                for s in &seqs[i..(i + 32).min(seqs.len())] {
                    for (u, avoid) in &combos {
                        ran += 1;
                        let input = serde_json::json!({"seq": s, "urgency": u, "avoid_snapshots": avoid});
                        match catch_unwind(AssertUnwindSafe(|| rt.block_on(c12_one(s, *u, *avoid)))) {
                            Ok(Ok(())) => {}
                            Ok(Err((at, got, expected))) => fails.push(Failure { mode: "c12".into(), input, at, got, expected }),
                            Err(e) => {
                                let msg = e.downcast_ref::<String>().cloned().or_else(|| e.downcast_ref::<&str>().map(|s| s.to_string())).unwrap_or_default();
                                fails.push(Failure { mode: "c12".into(), input, at: "somewhere".into(), got: format!("panic: {msg}"), expected: "no panic".into() })
                            }
                        }
                    }
                }
            }
            (ran, fails)
        }));
    }
    let mut ran = 0;
    let mut fails = Vec::new();
    for h in hs {
        let (r, f) = h.join().unwrap();
        ran += r;
        fails.extend(f);
    }
    (total, ran, fails, serde_json::json!({"edit_steps": alpha.len(), "depth": depth, "urgency_x_avoid": combos.len(), "then": "a second replica adds a version; fresh replica from every snapshot + later versions; a replica holding data"}))
}

fn main() {
    let args: Vec<String> = std::env::args().collect();
    let get = |k: &str| args.iter().position(|a| a == k).and_then(|i| args.get(i + 1)).cloned();
    let out = PathBuf::from(get("--out").expect("--out DIR"));
    std::fs::create_dir_all(&out).unwrap();
    let mode = get("--mode").expect("--mode c12|c14|c18|c19");
    // panics are captured and reported as failures: keep the default hook quiet
    if std::env::var_os("VERIF_DYN_LOUD").is_none() {
        std::panic::set_hook(Box::new(|_| {}));
    }
    if let Some(path) = get("--replay") {
        let v: serde_json::Value = serde_json::from_str(&std::fs::read_to_string(&path).unwrap()).unwrap();
        let input = v["scenario"].clone();
        let r = rt();
        let res: Result<(), String> = match mode.as_str() {
            "c18" => {
                let m: Vec<(String, String)> = serde_json::from_value(input["task_map"].clone()).unwrap();
                let map: TaskMap = m.into_iter().collect();
                let lm = input["working_set_lists_a_missing_task"].as_bool().unwrap_or(false);
                catch_unwind(AssertUnwindSafe(|| r.block_on(c18_one(&map, lm)))).map(|_| ()).map_err(|_| "panic".to_string())
            }
            "c19" => {
                let s: Vec<Mut> = serde_json::from_value(input["seq"].clone()).unwrap();
                let b = input["base"].as_u64().unwrap_or(0) as usize;
                match catch_unwind(AssertUnwindSafe(|| r.block_on(c19_one(b, &s)))) {
                    Ok(Ok(())) => Ok(()),
                    Ok(Err((at, g, e))) => Err(format!("{at}: got {g}, expected {e}")),
                    Err(_) => Err("panic".into()),
                }
            }
            "c12" => {
                let sq: Vec<Edit> = serde_json::from_value(input["seq"].clone()).unwrap();
                let u = input["urgency"].as_u64().unwrap_or(0) as u8;
                let av = input["avoid_snapshots"].as_bool().unwrap_or(false);
                match catch_unwind(AssertUnwindSafe(|| r.block_on(c12_one(&sq, u, av)))) {
                    Ok(x) => x.map_err(|(a, g, e)| format!("{a}: got {g}, expected {e}")),
                    Err(_) => Err("panic".into()),
                }
            }
            _ => {
                if input["direction"] == "receive" {
                    match catch_unwind(AssertUnwindSafe(|| r.block_on(c14_receive(input["wrapper"].as_bool().unwrap_or(true), input["variant"].as_u64().unwrap_or(0) as usize)))) {
                        Ok(x) => x.map_err(|(a, g, e)| format!("{a}: got {g}, expected {e}")),
                        Err(_) => Err("panic".into()),
                    }
                } else {
                    let s: Vec<Edit> = serde_json::from_value(input["seq"].clone()).unwrap();
                    match catch_unwind(AssertUnwindSafe(|| r.block_on(c14_send(&s)))) {
                        Ok(x) => x.map_err(|(a, g, e)| format!("{a}: got {g}, expected {e}")),
                        Err(_) => Err("panic".into()),
                    }
                }
            }
        };
        match res {
            Ok(()) => {
                println!("replay: no deviation");
                std::process::exit(0)
            }
            Err(e) => {
                println!("replay: DEVIATION {e}");
                std::process::exit(1)
            }
        }
    }
    let tier = get("--tier").unwrap_or("quick".into());
    let thorough = tier == "thorough";
    let jobs: usize = get("--jobs").and_then(|s| s.parse().ok()).unwrap_or(8);
    let t0 = std::time::Instant::now();
    let (total, ran, mut fails, bounds) = match mode.as_str() {
        "c18" => mode_c18(thorough, jobs),
        "c19" => mode_c19(thorough, jobs),
        "c14" => mode_c14(thorough, jobs),
        "c12" => mode_c12(thorough, jobs),
        other => panic!("unknown mode {other}"),
    };
    fails.sort_by_key(|f| f.input.to_string().len());
    let mut files = Vec::new();
    if let Some(f) = fails.first() {
        let p = out.join(format!("{}-replica-exec.json", mode.to_uppercase()));
        let m = serde_json::json!({"scenario": f.input, "at": f.at, "got": f.got, "expected": f.expected, "mode": f.mode});
        std::fs::write(&p, serde_json::to_string_pretty(&m).unwrap()).unwrap();
        files.push(p.to_string_lossy().to_string());
    }
    let summary = serde_json::json!({
        "tier": tier, "scenarios": total, "executed": ran, "outside_contract_skipped": 0,
        "mismatches": fails.len(), "replays": files, "seconds": t0.elapsed().as_secs_f64(), "bounds": bounds,
    });
    println!("SUMMARY {}", summary);
    std::process::exit(if fails.is_empty() { 0 } else { 1 });
}
