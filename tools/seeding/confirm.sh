#!/bin/sh
# confirm a seeded change in worktree $1: demo fails with it, passes without; existing tests pass with it
W=/tmp/wt/$1; cd $W || exit 1
export CARGO_TARGET_DIR=$W/target
git diff -- src > $W/patch.diff
echo "== $1: with change: demo"; cargo test --offline --test seeded_demo 2>&1 | grep -E "^test result|^test .*(ok|FAILED)$" | tail -6
echo "== $1: with change: lib"; cargo test --offline --lib 2>&1 | grep -E "^test result" 
echo "== $1: with change: integration tests"; cargo test --offline --tests --no-fail-fast 2>&1 | grep -E "^test result|Running|FAILED" | grep -v "^test result: ok" | head -20
git checkout -- src
echo "== $1: WITHOUT change: demo"; cargo test --offline --test seeded_demo 2>&1 | grep -E "^test result"
git apply $W/patch.diff
echo "== $1: restored: $(git status --short | tr '\n' ' ')"
