#!/usr/bin/env python3
"""Regenerate /verif/MANIFEST.json from contracts/properties.json (which properties are claimed) and the texts below."""
import json
import os

VERIF = os.path.dirname(os.path.dirname(os.path.abspath(__file__)))
props = [json.loads(l) for l in open(os.path.join(VERIF, 'properties.jsonl'))]
cfg = json.load(open(os.path.join(VERIF, 'contracts', 'properties.json')))

TECH = "function contracts, loop invariants and lemmas discharged by Verus (Z3) on source extracted mechanically from /repo on every run"

NA = {
    'C06': 'durability/atomicity is implemented by SQLite (C code) and the OS; no contract on a Rust function can express "survives a process kill" (DESIGN.md section 6). The Rust-level necessary condition (one transaction, commit last) is checked under C04/C05/C07/C15.',
    'C09': 'carried by CloudServer::get_child_version/cleanup, which use constructs the installed Verus rejects (slice patterns, sort, closure binary_search_by_key, filter_map chains, boxed async iterators); Kani cannot execute them (HashMap, format!, ring FFI); only a hand-written model could be proved, which is a different technique family (DESIGN.md section 6)',
    'C10': 'same functions as C09; the cleanup/add_version race (D5 in DESIGN.md) is real but cannot be decided by a contract within reach of the installed verifiers',
    'C17': 'OS threads/processes and SQLite file locking; Kani has no thread support and Verus would need its own concurrency tokens threaded through tokio and rusqlite (DESIGN.md section 6)',
}

CLAIMS = {
    'C01': dict(
        text="Deductive proof (Verus) over the real transform, try_apply_op, apply_op, apply_version, snapshot functions and sync: for every base state the rebase theorem holds on apply_version's nested loops; sync re-establishes the documented replica invariant with nothing pending and the transaction committed, against a Server contract in which the chain may grow inside every call; batches always hold at least one operation and are cut from the rebased operations. History lemmas over those contracts give: every replica at the head with nothing pending holds exactly the replay of the server's versions. Replica::sync (then the working set is rebuilt without renumbering) is verified over the TaskDb wrappers. Unbounded in replicas, operations, values, batch count.",
        note="Trusted: prelude stand-ins (uuid, chrono, HashMap<String,String>, String equality), serde_json/flate2 round trips (A6), StorageTxn contract for SQLite (A8), Server contract as rely condition. Valid-when-made operations (X3). Partial correctness (no termination claim). Replica level: assumption A9 (a Storage holds one committed content; the three-line TaskDb wrappers are hashed glue)."),
    'C02': dict(
        text="Same proof of sync against the rely/guarantee Server contract (other replicas' versions may be accepted before every request is served): after a rejected add_version the loop invariant is about the already rebased local operations, so what is re-sent is their rebase over every version pulled in this call; Err(OutOfSync) is proved unreachable; every Err leaves the transaction uncommitted.",
        note="Interleavings at request granularity; liveness of the retry loop not claimed; the server is assumed to retain all versions at or after the replica's base and never to return OutOfSync itself. Same trusted base as C01."),
    'C03': dict(
        text="Deductive proof that the real SyncOp::transform satisfies the documented conflict relation for all inputs (never invents operations; later timestamp wins; delete wins over update; disjoint changes and concurrent creates kept), with lemmas over that contract: OT diamond with validity preservation in every state, winner independent of sync order for non-tied pairs, exactly one survivor in a tie; lifted to sequences by apply_version's rebase theorem.",
        note="Ties (equal timestamps, different values) are left free by decision X1. Trusted: prelude stand-ins; rewrites R4/R7/R13 on the extracted text."),
    'C04': dict(
        text="Proof over sync/apply_version/try_apply_op with fallible StorageTxn and Server contracts (any call may fail; add_version may have been carried out although it returned an error): every Err return leaves the transaction uncommitted and commit is the last effect; storage errors while applying server operations propagate (only invalid operations are ignored); the replica invariant is monotone in the chain, so the stored replica still satisfies it after an interruption and the next sync starts from its precondition; OutOfSync unreachable; a version identical to the local operations cancels them completely.",
        note="'Uncommitted leaves no trace' is proved for the in-memory store (unit inmemory) and assumed for SQLite (C06 not applicable). 'Own version received back' is proved on apply_version's loops for a version holding exactly the local operations (they cancel completely: nothing applied twice, nothing left to send)."),
    'C05': dict(
        text="Proof that the real apply_operations (cache, Entry API, flush loop) equals one-at-a-time application under the documented rules for every batch and prior state, valid or not; TaskDb::commit_operations appends the operations in order, is all-or-nothing (Err leaves the transaction uncommitted) and commits last; the replica invariant is preserved by local commits. Replica::commit_operations: empty batch changes nothing; otherwise tasks as applied one at a time and all-or-nothing.",
        note="End to end for the in-memory store (unit inmemory proves the storage contract); SQLite side assumed (A8). HashMap<Uuid,_> per vstd's model."),
    'C07': dict(
        text="Proof over the real reverse_ops, commit_reversed_operations and get_undo_operations: for accurate operations the reversal restores exactly the prior task set (Delete restored from drained old_task pairs in any order); the given operations must be the tail of the unsynchronized list, exactly they are removed and the transaction committed, otherwise nothing changes and false is returned; only unsynchronized operations are ever offered for undo. Replica::{get_undo_operations, commit_reversed_operations}: on success the working set is rebuilt without renumbering, on mismatch nothing changes.",
        note="'accurate' (recorded old values are what the state held) is the precondition C19 establishes. Trusted: prelude, StorageTxn contract."),
    'C08': dict(
        text="Proof that LocalServer::{add_version,get_child_version,get_snapshot} implement the sequential Server chain protocol over a ghost {latest, rows} database behind the SQL helper methods: accept iff parent is latest or none exists, reject naming latest and write nothing, return the stored child, NoSuchVersion for an unknown parent. HTTP client (unit httpsrv): 409 is read as ExpectedParentVersion(X-Parent-Version-Id), any other non-error status as Ok(X-Version-Id) with the X-Snapshot-Request urgency, 404 as NoSuchVersion / no snapshot, other error statuses as errors; ids come from the documented headers, bodies only with the documented content type. Object store (unit cloudsrv, one client at a time): CloudServer::add_version rejects a parent that is not `latest` naming the latest and changing nothing, otherwise stores the sealed segment under v-PARENT-VERSION and compare-and-swaps `latest`, deleting the object again when the swap is lost; get_child_version serves only a child that is the latest version or has children itself, with the stored bytes opened under its own id; snapshots are stored under s-VERSION and returned only if they open.",
        note="PROVED: local backend over contracted SQL helpers, HTTP client request/response mapping, object store sequentially (its name/list helpers and cleanup trusted by contract, hashed; concurrent clients are C09, not applicable). BOUNDED stand-in (executed, never counted as proved; engine server_conform): the local server including its SQL, and the git-backed server (spawns git; local-only, and two clones sharing a bare remote with handles created up-front or lazily), are run on every call sequence within stated bounds (local: depth 3 from 3 base chains, two handles, 3 payloads incl. empty / non-UTF-8 / 70 kB, + 600 seeded walks of 30 calls; git: depth 2 + seeded walks; thorough: one level deeper, thousands of walks) and each result is checked against the executable protocol contract; a deviation is reported with the failing call sequence (replayable). It found D10 (git: a replica keeps the key of the salt it invented itself), repaired by a fix: commit. NOT covered: the sync server program behind the HTTP client, real object stores, longer sequences, injected faults (C11)."),
    'C11': dict(
        text="Proof that the backend invariant (rows = one parent-linked chain ending at latest, no other row served) holds after EVERY helper call inside LocalServer::add_version, i.e. at every point where a failure or stop can occur between database transactions, and that an Err from any helper returns without further writes. Object store (unit cloudsrv): whatever step of CloudServer::add_version fails or is interrupted (each request may or may not have been carried out), the store is left unchanged, or with only the uploaded-but-uncommitted object, or with the accepted version; such an object is proved not to be a true child (lemma_orphan_not_served), and get_child_version is proved to serve true children only.",
        note="PROVED: the local backend over contracted SQL helpers (crash points between helper calls) and the object store's add_version failure states, sequentially (helpers hashed). BOUNDED stand-in (executed, never counted as proved; engine server_conform kind git-fault): the git-backed server with a shared remote -- every git command of add_version / add_snapshot on one replica fails in turn in three ways, all handles restart, and the executable protocol contract is checked while both replicas go on. OPEN KNOWN FINDING D11 (git backend serves an unpublished version after an interrupted add_version; replay defect_replays/d11_git_interrupted_add.rs) is printed as KNOWN-FINDING and matched by failure signature, so other deviations are still violations. NOT covered: faults inside one SQL transaction (C06), real object stores, composition with whole replicas (client side is C04)."),
    'C12': dict(
        text="Proof that sync uploads a snapshot only for the version it just added, only when no local operation remains (so the encoded task set is the replay of the chain up to that version), only when the server's urgency meets the replica's threshold; make_snapshot encodes exactly all_tasks; apply_snapshot is reached only on an empty replica, re-checks emptiness, installs exactly the decoded task set and version and never replaces existing data; a replica started from a snapshot satisfies the replica invariant and hence ends equal to a full replay.",
        note="JSON+zlib round trip is assumption A6 ('whatever strings the tasks contain' is inside A6, not decided)."),
    'C13': dict(
        text="Proof over server/encryption.rs: Envelope byte layout (format byte 1, 12-byte nonce, payload; from_bytes fails iff too short or wrong version), AAD = app id byte + 16 version-id bytes, key derivation with PBKDF2-HMAC-SHA256 / 600000 iterations / ChaCha20-Poly1305 constants pinned in postconditions, seal/unseal round trip and rejection of any changed secret, salt, version id, format byte, nonce, ciphertext or truncation, over an idealised AEAD contract for ring. HTTP backend (src/server/sync/mod.rs, unit httpsrv): the key is derived with the client id as salt; add_version / add_snapshot put into the request body only the sealed form bound to the parent version id / the snapshot's version id; get_child_version / get_snapshot return only bytes that open under the client key and the version id named in the response headers. Object store (unit cloudsrv): add_version / add_snapshot store only the sealed form bound to the object's own version id; get_child_version / get_snapshot return only what opens under that id.",
        note="ring's primitives are assumed (A7: open inverts seal only for the same key, nonce and AAD). reqwest/url are stand-ins (A10: a response remembers the request it answers). The object-store and git backends' call sites are outside the verifier's reach and not covered; the request URL is opaque (format!)."),
    'C14': dict(
        text="Proof that from_op maps Create/Delete/Update to exactly the documented fields and UndoPoint to nothing, that the real SyncOp carries nothing beyond the documented wire fields (wire view injective: an added field fails the lemma), and that sync sends, in order, prefixes of the rebased operations derived from the unsynchronized list.",
        note="PROVED: the type-level half (what from_op keeps, what SyncOp can carry, the order sync sends). The JSON text, RFC 3339 rendering and acceptance of other implementations' documents are serde/chrono code behind derive macros: no contract can be discharged there, so that half is a BOUNDED stand-in (engine replica_exec mode c14, executed, never counted as proved): for every edit sequence up to 5 (thorough 6) steps the versions a real replica hands to a harness-side Server are parsed and compared with the committed operations and the documented fields / Z timestamps, and 15 hand-written versions with other field orders, whitespace and timestamp precisions/offsets are applied. The implementation wraps the documented array as {\"operations\": [...]} (docs/src/sync-protocol.md shows the bare array); the check accepts the wrapper every deployed replica uses."),
    'C15': dict(
        text="Proof over the real working_set::rebuild (scan, append, zip write-back, shrink and grow loops, arbitrary pure predicate): afterwards index 0 is empty, a task is listed iff it exists and satisfies the predicate, exactly once; without renumbering survivors keep their index and newcomers come after all old indexes; with renumbering entries are gap-free in the old relative order; committed. TaskDb::commit_operations appends the tasks of the flagged operations, and only those, at the end without moving others. Replica level: the predicates actually passed are proved to be 'status is pending or recurring' (rebuild) and 'status changes from neither to one of them' (commit); Replica::sync and undo rebuild without renumbering.",
        note="Write-back is proved against the StorageTxn contract (trailing blanks trimmed, add appends at highest index + 1), proved for in-memory, assumed for SQLite. Old working set assumed duplicate-free (storage invariant)."),
    'C16': dict(
        text="Two parts. PROOF (in-memory half): 19 of the 20 StorageTxn methods of the in-memory Txn (all but get_pending_tasks) satisfy the StorageTxn contract, return values included: listings are exactly the stored tasks/uuids, get_task_operations returns the task's operations oldest first, sync_complete marks everything synced and drops exactly the history of tasks that no longer exist; commit copies the transaction's data into the store and a dropped transaction changes nothing. BOUNDED stand-in (SQLite half, executed, never counted as proved): the real SqliteStorage, through the real send_wrapper, is run next to the real InMemoryStorage on every contract-respecting call sequence within stated bounds (quick: 3 calls in an abandoned transaction, 2 in a committed one, from 3 committed base states, 27-50 distinct calls; thorough: 4 / 3) comparing every return value, what is visible after commit / abandon / close+reopen, on databases laid out by TaskChampion 0.8, 0.9 and schema (0,1), and that a read-only handle refuses every modification. A mismatch is reported with the failing call sequence, replayable on the real code.",
        note="The in-memory half is proved (iterator chains verified as the loops they denote, rule R26). NOTHING about SQLite is proved: SQL run by a C library is outside every installed deductive verifier, so that half is a bounded execution against the proved implementation -- bounds in evidence coverage.bounded; sequences longer than the bound, more than 2 task ids, and concurrent handles are not explored."),
    'C18': dict(
        text="Kani proves for every i64 that the checked timestamp conversion used by the read accessors (utc_timestamp_opt in the unmodified src/task/time.rs) never panics; Verus proves panic-freedom (its default obligations: no unwrap on None, no index out of bounds, no arithmetic overflow, no unreachable) for the extracted read functions.",
        note="PROVED: the integer kernel (Kani, full i64 domain) and the extracted read functions (Verus). Iterator-returning getters built from lazy closures over HashMap iterators (get_tags, get_annotations, get_dependencies, get_udas), Tag parsing, DependencyMap and WorkingSet::iter are outside every installed verifier: BOUNDED stand-in (engine replica_exec mode c18, executed under panic capture, never counted as proved): every public read method of Task, TaskData, WorkingSet, DependencyMap and Replica on every task map with 0/1 entries (+ 6 context entries; thorough: pairs) over 167 keys (recognised, malformed, long non-ASCII at every byte alignment in accepted and rejected shapes) and 31 hostile values, planted through the storage API."),
    'C19': dict(
        text="Proof over TaskData::{create,update,delete} and the core Task mutators: exactly the documented operations are recorded, each Update carries the value the property really had, the object's map changes accordingly; set_value refreshes `modified` once per editing session and never when set explicitly; set_status adds/removes `end` as documented.",
        note="PROVED: TaskData and the core Task mutators. Key formatting/parsing for tags, annotations, dependencies and UDAs, set_due, synthetic tags and the dependency map's lazy iterators are outside every installed verifier: BOUNDED stand-in (engine replica_exec mode c19, executed, never counted as proved): every sequence of up to 3 (thorough 4) of 52 mutator calls on three base tasks, each followed by commit and reload, checked against the property's statement written as code (recorded operations replay to the held task, old values true, stored == held, read-back, reserved names refused, end follows status, synthetic tags, dependency map edges)."),
    'C20': dict(
        text="Proof over the real Replica::expire_tasks and all_task_data: the batch handed to commit_operations consists of exactly one Delete (carrying the whole old task) for every stored task whose status is deleted and whose `modified` is an integer inside the calendar range and earlier than now - 180 days, and of nothing else (missing, non-numeric or out-of-range times keep the task); it is committed as one ordinary batch. Synchronization half: a synchronized Delete wins over concurrent updates whoever syncs first (contract of transform + rebase theorem) and every replica's state is the replay of the chain.",
        note="chrono, str::parse and the clock are trusted stand-ins (A2: DateTime is a nanosecond count, from_timestamp is Some exactly on chrono's range, one clock reading per call). The drain/filter/for_each chain and the is_some_and/is_ok_and nest are verified as the loop and matches they denote (rules R5, R26, R29). The two halves are not composed into one multi-replica statement."),
}

engines_props = sorted(cfg['properties'].keys())
m = {
    "version": 1,
    "setup_cmd": "./setup.sh",
    "hooks": {
        "guard": "gothenburgbitfactory_taskchampion_verif",
        "enable": "none needed: contracts are woven into text extracted from /repo/src on every run; Kani harnesses include source files by #[path]",
        "baseline_off_cmd": "cd /repo && cargo nextest run --workspace --no-fail-fast --tool-config-file pb:/w/lib/nextest.toml --profile pb --test-threads 8 --offline",
        "source_commits": [],
        "add_only": True,
    },
    "engines": [
        {"name": "vf", "path": "/verif/vf", "serves_properties": engines_props,
         "kind_free_text": "contract weaving (line-level, insert-only) + Verus 0.2026.09.13 (Z3) deductive verification of functions extracted mechanically from /repo on every run"},
        {"name": "kani", "path": "/verif/kani", "serves_properties": [p for p in engines_props if cfg['properties'][p].get('kani')],
         "kind_free_text": "Kani 0.68 / CBMC 6.11 harnesses over HashMap-free kernels included by #[path] from /repo/src"},
        {"name": "dyn", "path": "/verif/vf/dyn.py + /verif/dyn/*", "serves_properties": [k for k, v in cfg['properties'].items() if v.get('dyn')],
         "kind_free_text": "bounded stand-ins (never counted as proved): harness crates built against a copy of the tree under check that execute the real code on every contract-respecting call sequence within stated bounds, using the implementation proved against the contract as the oracle"},
    ],
    "checks": [],
    "notes": "See DESIGN.md. Genuine defects found while anchoring the contracts were repaired by 'fix:' commits in /repo (known_findings.json lists them as fixed). Exit code 2 = UNDECIDED (front-end rejection, lost anchor, rlimit): never an alarm.",
    "not_applicable": [],
}
for p in props:
    i = p['id']
    if i in cfg['properties']:
        c = CLAIMS[i]
        pc = cfg['properties'][i]
        tech = TECH
        if pc.get('kani'):
            tech += "; Kani/CBMC full-domain loop-free harness for the integer kernel"
        if pc.get('dyn'):
            tech += "; plus a BOUNDED stand-in for code outside every verifier's reach (SQL in a C library): exhaustive execution of contract-respecting call sequences up to a stated depth against the implementation proved to satisfy the contract (labelled bounded, not counted as proved)"
        m['checks'].append({
            "property_id": i,
            "quick_cmd": "./check %s --tier quick" % i,
            "thorough_cmd": "./check %s --tier thorough" % i,
            "evidence_file": "/verif/evidence/%s.json" % i,
            "replay_cmd_template": "./check %s --replay {path}" % i,
            "engine": "vf",
            "level_claimed": {"category": "proof", "text": c['text'], "design_ref": "DESIGN.md section 4, " + i},
            "level_note": c['note'],
            "technique": tech,
        })
    elif i in NA:
        m['not_applicable'].append({"property_id": i, "reason": NA[i]})
    else:
        m['not_applicable'].append({"property_id": i, "reason": "check under construction in this session (planned as a contract proof, DESIGN.md section 4 " + i + "); not claimed until its unit verifies end to end"})
json.dump(m, open(os.path.join(VERIF, 'MANIFEST.json'), 'w'), indent=1)
print('claimed:', [c['property_id'] for c in m['checks']])
print('not applicable:', [c['property_id'] for c in m['not_applicable']])
