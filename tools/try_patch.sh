#!/bin/sh
# usage: tools/try_patch.sh PATCH PROP...   -- apply PATCH (git diff of src/) to a scratch copy of /repo and run the checks on it
P="$1"; shift
T=$(mktemp -d /tmp/vf-try-XXXXXX)
mkdir -p "$T/repo" && cp -r /repo/src "$T/repo/src" && (cd "$T/repo" && patch -s -p1 < "$P") || { echo "patch failed"; rm -rf "$T"; exit 3; }
for id in "$@"; do
  VERIF_REPO="$T/repo" VERIF_OUT="$T/out" python3 /verif/vf/main.py check "$id" --tier quick; echo "  -> $id exit=$?"
done
if [ -n "$KEEP" ]; then echo "kept $T"; else rm -rf "$T"; fi
